//! Scenario and observation types, request handling and JSON forms shared by the
//! in-memory runner (hooks on) and the real-socket conformance runner (hooks off).

use crate::infra::{esc, unesc};
use serde_json::{json, Value};
use std::io::{Read, Write};
use std::net::SocketAddr;
use std::sync::{Arc, Mutex};
use std::time::Duration;
use tiny_http::{Header, Request, Response, Server, StatusCode};

#[cfg(tiny_http_verif)]
use tiny_http::verif_rt::thread;
#[cfg(not(tiny_http_verif))]
use crate::plainthread as thread;

#[derive(Clone, Copy, Debug, PartialEq, Eq)]
pub enum CutKind {
    Close,
    Reset,
}

pub fn peer_addr_for(conn: usize) -> SocketAddr {
    SocketAddr::from(([127, 0, 0, 1], 40000 + conn as u16))
}

// ------------------------------------------------------------------------- scenario

#[derive(Clone, Debug, PartialEq)]
pub enum Step {
    /// one segment: the server's next read returns exactly these bytes
    Send(Vec<u8>),
    /// wait until nothing can run any more
    Settle,
    CloseWrite,
    Close,
    Reset,
    /// collect what the server wrote so far
    Drain,
    SleepMs(u64),
    /// reactive client: if an interim 100 response has been received send the bytes,
    /// otherwise give up and close the sending side
    SendIfContinue(Vec<u8>),
    /// open the connection now (connections are otherwise opened at their first step)
    Connect,
    /// deferred application: handle the stashed requests now
    AppGo,
}

#[derive(Clone, Debug, PartialEq)]
pub struct ConnSpec {
    pub unnamed_peer: bool,
    pub capacity: Option<usize>,
    pub cut: Option<(u64, CutKind)>,
}

impl Default for ConnSpec {
    fn default() -> ConnSpec {
        ConnSpec {
            unnamed_peer: false,
            capacity: None,
            cut: None,
        }
    }
}

#[derive(Clone, Debug, PartialEq)]
pub enum ReadPlan {
    /// do not touch the body
    None,
    /// read with the given buffer sizes (cycled) until `limit` bytes were obtained or
    /// end-of-stream, then `extra` more reads
    Sizes {
        sizes: Vec<usize>,
        limit: Option<usize>,
        extra: usize,
        as_reader_calls: usize,
    },
    ReadToEnd,
    /// read exactly `limit` bytes with buffers of `size`, then issue one read with an
    /// empty buffer (which must change nothing)
    ThenZeroLengthRead { size: usize, limit: usize },
    /// the whole body through another method of `Read` than read(): 0 = read_vectored (two
    /// slices of 1500 bytes per call), 1 = read_exact(declared length) then a read that must
    /// return 0, 2 = the bytes() iterator, 3 = read_to_string, 4 = two bytes, then a read with an
    /// EMPTY buffer (which says nothing about the end of the body), then on to the end with
    /// 7-byte buffers, 5 = an empty-buffer read first, then read_to_end; 1000 + n = up to two
    /// bytes, an empty-buffer read, then exactly the rest of the first n bytes with 7-byte
    /// buffers, and no further read (end-of-stream is never observed)
    OtherMethod { method: usize },
}

impl ReadPlan {
    pub fn all(size: usize) -> ReadPlan {
        ReadPlan::Sizes {
            sizes: vec![size],
            limit: None,
            extra: 1,
            as_reader_calls: 1,
        }
    }
    pub fn part(size: usize, limit: usize) -> ReadPlan {
        ReadPlan::Sizes {
            sizes: vec![size],
            limit: Some(limit),
            extra: 0,
            as_reader_calls: 1,
        }
    }
}

#[derive(Clone, Debug, PartialEq)]
pub struct RespSpec {
    pub status: u16,
    pub body_len: usize,
    pub declared: bool,
    pub threshold: Option<usize>,
    /// further application headers `X-Pad-<i>: <40 bytes>` (a head above the 1 KiB write buffer)
    pub headers: usize,
}

impl RespSpec {
    pub fn ok(body_len: usize) -> RespSpec {
        RespSpec {
            status: 200,
            body_len,
            declared: true,
            threshold: None,
            headers: 0,
        }
    }
}

#[derive(Clone, Debug, PartialEq)]
pub enum Finish {
    Respond(RespSpec),
    /// `into_writer`, then the parts with optional flush after each, then drop
    Writer { parts: Vec<Vec<u8>>, flush: bool },
    /// `upgrade`, read everything the client still sends, echo `n` marker bytes, drop
    Upgrade,
    Drop,
    /// a handler thread panics while holding the request
    Panic,
    /// respond() with a body of declared length `len` whose reader fails after `after` bytes
    RespondFailingReader { len: usize, after: usize },
}

#[derive(Clone, Debug, PartialEq)]
pub struct ReqPlan {
    pub read: ReadPlan,
    pub finish: Finish,
}

impl ReqPlan {
    pub fn simple() -> ReqPlan {
        ReqPlan {
            read: ReadPlan::all(4096),
            finish: Finish::Respond(RespSpec::ok(2)),
        }
    }
}

#[derive(Clone, Copy, Debug, PartialEq)]
pub enum RecvStyle {
    Recv,
    RecvTimeout(u64),
    Iter,
}

#[derive(Clone, Debug, PartialEq)]
pub struct AppProgram {
    /// plan for the i-th delivered request; the last one repeats
    pub plans: Vec<ReqPlan>,
    pub recv: RecvStyle,
    /// stash requests until `Step::AppGo`, then handle them in arrival order
    pub deferred: bool,
    /// every request is handled on a thread of its own
    pub thread_per_request: bool,
}

impl AppProgram {
    pub fn simple() -> AppProgram {
        AppProgram {
            plans: vec![ReqPlan::simple()],
            recv: RecvStyle::Recv,
            deferred: false,
            thread_per_request: false,
        }
    }
    pub fn uniform(p: ReqPlan) -> AppProgram {
        AppProgram {
            plans: vec![p],
            recv: RecvStyle::Recv,
            deferred: false,
            thread_per_request: false,
        }
    }
    pub fn with_plans(plans: Vec<ReqPlan>) -> AppProgram {
        AppProgram {
            plans,
            recv: RecvStyle::Recv,
            deferred: false,
            thread_per_request: false,
        }
    }
}

#[derive(Clone, Debug, PartialEq)]
pub struct Scenario {
    pub conns: Vec<ConnSpec>,
    pub script: Vec<(usize, Step)>,
    pub app: AppProgram,
    /// after the script: open one more connection, send a GET and expect an answer
    pub probe_after: bool,
    /// let 6 s of virtual time pass after shutdown so that surplus workers retire
    pub idle_after: bool,
}

impl Scenario {
    /// One connection; every segment is followed by `Settle`.
    pub fn one_conn(segments: Vec<Vec<u8>>, app: AppProgram) -> Scenario {
        let mut script = Vec::new();
        for s in segments {
            script.push((0, Step::Send(s)));
            script.push((0, Step::Settle));
        }
        Scenario {
            conns: vec![ConnSpec::default()],
            script,
            app,
            probe_after: false,
            idle_after: false,
        }
    }
}

// ------------------------------------------------------------------------- observation

#[derive(Clone, Debug, Default, PartialEq)]
pub struct ReqObs {
    pub conn: Option<usize>,
    pub method: String,
    pub url: String,
    pub version: (u8, u8),
    pub headers: Vec<(String, String)>,
    pub body: Vec<u8>,
    pub reads: usize,
    pub touched_body: bool,
    pub eof_seen: bool,
    pub eof_sticky: bool,
    pub body_length: Option<usize>,
    pub remote_addr: Option<String>,
    pub read_error: Option<String>,
    pub finish: String,
}

#[derive(Clone, Debug, Default, PartialEq)]
pub struct ConnObs {
    pub connected: bool,
    pub received: Vec<u8>,
    pub segments: Vec<usize>,
    pub eof: bool,
    pub reset: bool,
    pub server_consumed: u64,
    pub sent: u64,
    /// the bytes the client actually sent (a reactive client may withhold some)
    pub sent_bytes: Vec<u8>,
    /// a reactive client gave up waiting for `100 Continue` and closed its sending side
    pub gave_up: bool,
    /// state when the script had finished (before the runner's orderly shutdown)
    pub eof_at_script_end: bool,
    pub received_at_script_end: usize,
}

#[derive(Clone, Debug, Default)]
pub struct Obs {
    pub reqs: Vec<ReqObs>,
    pub conns: Vec<ConnObs>,
    pub recv_errors: Vec<String>,
    pub events: Vec<String>,
    pub probe_ok: Option<bool>,
    pub script_done: bool,
    pub live_threads_before_drop: usize,
    pub live_threads_end: usize,
    /// server-side socket handles still alive at the very end (server dropped, idle period over)
    pub server_handles_end: usize,
    pub refused_after_drop: Option<bool>,
}

pub type SharedObs = Arc<Mutex<Obs>>;


// ------------------------------------------------------------------------- request handling

pub fn body_for(id: usize, len: usize) -> Vec<u8> {
    let tag = format!("<{}>", id);
    let t = tag.as_bytes();
    (0..len).map(|i| t[i % t.len()]).collect()
}

pub fn describe_request(rq: &Request) -> ReqObs {
    let ra = rq.remote_addr().cloned();
    ReqObs {
        conn: ra.and_then(|a| {
            let p = a.port();
            if p >= 40000 {
                Some((p - 40000) as usize)
            } else {
                None
            }
        }),
        method: rq.method().as_str().to_string(),
        url: rq.url().to_string(),
        version: (rq.http_version().0, rq.http_version().1),
        headers: rq
            .headers()
            .iter()
            .map(|h| (h.field.as_str().as_str().to_string(), h.value.as_str().to_string()))
            .collect(),
        body_length: rq.body_length(),
        remote_addr: ra.map(|a| a.to_string()),
        ..ReqObs::default()
    }
}

pub fn read_body(rq: &mut Request, plan: &ReadPlan, ob: &mut ReqObs) {
    match plan {
        ReadPlan::None => (),
        ReadPlan::ReadToEnd => {
            ob.touched_body = true;
            let mut v = Vec::new();
            match rq.as_reader().read_to_end(&mut v) {
                Ok(_) => {
                    ob.eof_seen = true;
                    ob.eof_sticky = true;
                }
                Err(e) => ob.read_error = Some(format!("{:?}", e.kind())),
            }
            ob.body = v;
        }
        ReadPlan::OtherMethod { method } => {
            ob.touched_body = true;
            let declared = rq.body_length();
            let r = rq.as_reader();
            match method {
                0 => {
                    let (mut a, mut b) = (vec![0u8; 1500], vec![0u8; 1500]);
                    loop {
                        ob.reads += 1;
                        let got = {
                            let mut bufs = [std::io::IoSliceMut::new(&mut a), std::io::IoSliceMut::new(&mut b)];
                            r.read_vectored(&mut bufs)
                        };
                        match got {
                            Ok(0) => {
                                ob.eof_seen = true;
                                ob.eof_sticky = true;
                                break;
                            }
                            Ok(n) => {
                                ob.body.extend_from_slice(&a[..n.min(1500)]);
                                if n > 1500 {
                                    ob.body.extend_from_slice(&b[..n - 1500]);
                                }
                            }
                            Err(e) => {
                                ob.read_error = Some(format!("{:?}", e.kind()));
                                break;
                            }
                        }
                    }
                }
                1 => {
                    // read_exact of the declared length (chunked bodies: read_to_end instead)
                    match declared {
                        Some(n) => {
                            let mut v = vec![0u8; n];
                            match r.read_exact(&mut v) {
                                Ok(()) => ob.body = v,
                                Err(e) => ob.read_error = Some(format!("{:?}", e.kind())),
                            }
                            let mut one = [0u8; 1];
                            if ob.read_error.is_none() {
                                match r.read(&mut one) {
                                    Ok(0) => {
                                        ob.eof_seen = true;
                                        ob.eof_sticky = true;
                                    }
                                    Ok(_) => ob.body.push(one[0]),
                                    Err(e) => ob.read_error = Some(format!("{:?}", e.kind())),
                                }
                            }
                        }
                        None => {
                            let mut v = Vec::new();
                            match r.read_to_end(&mut v) {
                                Ok(_) => {
                                    ob.eof_seen = true;
                                    ob.eof_sticky = true;
                                }
                                Err(e) => ob.read_error = Some(format!("{:?}", e.kind())),
                            }
                            ob.body = v;
                        }
                    }
                }
                m if *m >= 1000 => {
                    let n = *m - 1000;
                    let mut buf = [0u8; 7];
                    let first = n.min(2);
                    if first > 0 {
                        match r.read(&mut buf[..first]) {
                            Ok(k) => ob.body.extend_from_slice(&buf[..k]),
                            Err(e) => ob.read_error = Some(format!("{:?}", e.kind())),
                        }
                    }
                    ob.reads += 1;
                    if let Err(e) = r.read(&mut []) {
                        ob.read_error = Some(format!("{:?}", e.kind()));
                    }
                    while ob.body.len() < n && ob.read_error.is_none() {
                        let want = (n - ob.body.len()).min(7);
                        match r.read(&mut buf[..want]) {
                            Ok(0) => {
                                ob.eof_seen = true;
                                break;
                            }
                            Ok(k) => ob.body.extend_from_slice(&buf[..k]),
                            Err(e) => ob.read_error = Some(format!("{:?}", e.kind())),
                        }
                    }
                }
                4 | 5 => {
                    let mut buf = [0u8; 7];
                    let mut fail = |e: std::io::Error, ob: &mut ReqObs| ob.read_error = Some(format!("{:?}", e.kind()));
                    if *method == 4 {
                        match r.read(&mut buf[..2]) {
                            Ok(n) => ob.body.extend_from_slice(&buf[..n]),
                            Err(e) => fail(e, ob),
                        }
                    }
                    ob.reads += 1;
                    if let Err(e) = r.read(&mut []) {
                        fail(e, ob);
                    }
                    if *method == 4 {
                        loop {
                            match r.read(&mut buf) {
                                Ok(0) => {
                                    ob.eof_seen = true;
                                    ob.eof_sticky = true;
                                    break;
                                }
                                Ok(n) => ob.body.extend_from_slice(&buf[..n]),
                                Err(e) => {
                                    fail(e, ob);
                                    break;
                                }
                            }
                        }
                    } else {
                        let mut v = Vec::new();
                        match r.read_to_end(&mut v) {
                            Ok(_) => {
                                ob.eof_seen = true;
                                ob.eof_sticky = true;
                            }
                            Err(e) => fail(e, ob),
                        }
                        ob.body.extend_from_slice(&v);
                    }
                }
                2 => {
                    let mut v = Vec::new();
                    let mut err = None;
                    for b in r.bytes() {
                        match b {
                            Ok(x) => v.push(x),
                            Err(e) => {
                                err = Some(format!("{:?}", e.kind()));
                                break;
                            }
                        }
                    }
                    if err.is_none() {
                        ob.eof_seen = true;
                        ob.eof_sticky = true;
                    }
                    ob.read_error = err;
                    ob.body = v;
                }
                _ => {
                    let mut t = String::new();
                    match r.read_to_string(&mut t) {
                        Ok(_) => {
                            ob.eof_seen = true;
                            ob.eof_sticky = true;
                        }
                        Err(e) => ob.read_error = Some(format!("{:?}", e.kind())),
                    }
                    ob.body = t.into_bytes();
                }
            }
        }
        ReadPlan::ThenZeroLengthRead { size, limit } => {
            ob.touched_body = true;
            let mut buf = vec![0u8; (*size).max(1)];
            while ob.body.len() < *limit {
                let want = (*size).max(1).min(*limit - ob.body.len());
                ob.reads += 1;
                match rq.as_reader().read(&mut buf[..want]) {
                    Ok(0) => {
                        ob.eof_seen = true;
                        break;
                    }
                    Ok(n) => ob.body.extend_from_slice(&buf[..n]),
                    Err(e) => {
                        ob.read_error = Some(format!("{:?}", e.kind()));
                        break;
                    }
                }
            }
            let _ = rq.as_reader().read(&mut []);
        }
        ReadPlan::Sizes {
            sizes,
            limit,
            extra,
            as_reader_calls,
        } => {
            ob.touched_body = true;
            for _ in 1..*as_reader_calls {
                let _ = rq.as_reader();
            }
            let mut buf = vec![0u8; sizes.iter().copied().max().unwrap_or(1).max(1)];
            let mut i = 0;
            loop {
                if let Some(l) = limit {
                    if ob.body.len() >= *l {
                        break;
                    }
                }
                let mut want = sizes[i % sizes.len()].max(1);
                if let Some(l) = limit {
                    want = want.min(*l - ob.body.len());
                }
                i += 1;
                ob.reads += 1;
                match rq.as_reader().read(&mut buf[..want]) {
                    Ok(0) => {
                        ob.eof_seen = true;
                        break;
                    }
                    Ok(n) => ob.body.extend_from_slice(&buf[..n]),
                    Err(e) => {
                        ob.read_error = Some(format!("{:?}", e.kind()));
                        break;
                    }
                }
            }
            if ob.eof_seen {
                ob.eof_sticky = true;
                for _ in 0..*extra {
                    match rq.as_reader().read(&mut buf) {
                        Ok(0) => (),
                        _ => ob.eof_sticky = false,
                    }
                }
            }
        }
    }
}

/// Writes `p` through `Write::write_vectored`, two slices per call, until all is written.
pub fn write_vectored_all<W: Write + ?Sized>(w: &mut W, p: &[u8]) -> std::io::Result<()> {
    let mut off = 0;
    while off < p.len() {
        let rest = &p[off..];
        let mid = rest.len() / 2;
        let bufs = [std::io::IoSlice::new(&rest[..mid]), std::io::IoSlice::new(&rest[mid..])];
        match w.write_vectored(&bufs) {
            Ok(0) => return Err(std::io::Error::new(std::io::ErrorKind::WriteZero, "write_vectored returned 0")),
            Ok(n) => off += n,
            Err(e) => return Err(e),
        }
    }
    Ok(())
}

pub fn build_response(id: usize, spec: &RespSpec) -> Response<std::io::Cursor<Vec<u8>>> {
    let body = body_for(id, spec.body_len);
    let mut r = Response::new(
        StatusCode(spec.status),
        vec![Header::from_bytes(&b"X-Id"[..], id.to_string().as_bytes()).unwrap()],
        std::io::Cursor::new(body),
        if spec.declared { Some(spec.body_len) } else { None },
        None,
    );
    if let Some(t) = spec.threshold {
        r = r.with_chunked_threshold(t);
    }
    for i in 0..spec.headers {
        r.add_header(Header::from_bytes(format!("X-Pad-{}", i).as_bytes(), "0123456789abcdefghijklmnopqrstuvwxyzABCD".as_bytes()).unwrap());
    }
    r
}

/// A complete raw response carrying the request id, cut into `n` parts.
pub fn raw_response_parts(id: usize, body_len: usize, n: usize) -> Vec<Vec<u8>> {
    let body = body_for(id, body_len);
    let mut msg = format!(
        "HTTP/1.1 200 OK\r\nX-Id: {}\r\nX-Raw: 1\r\nContent-Length: {}\r\n\r\n",
        id, body_len
    )
    .into_bytes();
    msg.extend_from_slice(&body);
    if n <= 1 {
        return vec![msg];
    }
    let mut parts = Vec::new();
    let step = (msg.len() + n - 1) / n;
    for c in msg.chunks(step.max(1)) {
        parts.push(c.to_vec());
    }
    parts
}

pub fn finish_request(rq: Request, id: usize, fin: &Finish, ob: &mut ReqObs) {
    match fin {
        Finish::Respond(spec) => {
            let r = rq.respond(build_response(id, spec));
            ob.finish = match r {
                Ok(()) => "respond:ok".into(),
                Err(e) => format!("respond:err:{:?}", e.kind()),
            };
        }
        Finish::Writer { parts, flush } => {
            let mut w = rq.into_writer();
            let mut res = "writer:ok".to_string();
            // which method of `Write` the application uses is encoded in the number of leading
            // EMPTY parts: 0 = write_all, 1 = write_vectored (two slices per call), 2 = plain
            // write() with at most 64 bytes per call
            let style = parts.iter().take_while(|p| p.is_empty()).count() % 3;
            for p in parts {
                let r = match style {
                    1 => write_vectored_all(&mut w, p),
                    2 => {
                        let mut off = 0;
                        let mut r = Ok(());
                        while off < p.len() {
                            match w.write(&p[off..(off + 64).min(p.len())]) {
                                Ok(0) => {
                                    r = Err(std::io::Error::new(std::io::ErrorKind::WriteZero, "write returned 0"));
                                    break;
                                }
                                Ok(n) => off += n,
                                Err(e) => {
                                    r = Err(e);
                                    break;
                                }
                            }
                        }
                        r
                    }
                    _ => w.write_all(p),
                };
                if let Err(e) = r {
                    res = format!("writer:err:{:?}", e.kind());
                    break;
                }
                if *flush {
                    if let Err(e) = w.flush() {
                        res = format!("writer:err:{:?}", e.kind());
                        break;
                    }
                }
            }
            drop(w);
            ob.finish = res;
        }
        Finish::Upgrade => {
            let mut s = rq.upgrade("verif", Response::empty(101));
            let mut rest = Vec::new();
            let r = s.read_to_end(&mut rest);
            ob.body.extend_from_slice(&rest);
            let _ = s.write_all(format!("UP{}:{}", id, rest.len()).as_bytes());
            let _ = s.flush();
            drop(s);
            ob.finish = format!("upgrade:{}", if r.is_ok() { "ok" } else { "err" });
        }
        Finish::Drop => {
            drop(rq);
            ob.finish = "drop".into();
        }
        Finish::RespondFailingReader { len, after } => {
            struct Failing {
                left: usize,
            }
            impl Read for Failing {
                fn read(&mut self, buf: &mut [u8]) -> std::io::Result<usize> {
                    if self.left == 0 {
                        return Err(std::io::Error::new(std::io::ErrorKind::Other, "verif: the body source fails"));
                    }
                    let n = self.left.min(buf.len());
                    for b in buf[..n].iter_mut() {
                        *b = b'f';
                    }
                    self.left -= n;
                    Ok(n)
                }
            }
            let resp = Response::new(
                StatusCode(200),
                vec![Header::from_bytes(&b"X-Id"[..], id.to_string().as_bytes()).unwrap()],
                Failing { left: *after },
                Some(*len),
                None,
            );
            let r = rq.respond(resp);
            ob.finish = match r {
                Ok(()) => "respond-failing:ok".into(),
                Err(e) => format!("respond-failing:err:{:?}", e.kind()),
            };
        }
        Finish::Panic => {
            let h = thread::spawn_named(Some("panicking-handler".into()), move || {
                let _rq = rq;
                panic!("verif: handler panics while holding the request");
            });
            let _ = h.join();
            ob.finish = "panic".into();
        }
    }
}

pub fn handle_request(mut rq: Request, id: usize, plan: &ReqPlan, obs: &SharedObs) {
    if rq.url() == "/probe" {
        // the runner's own liveness probe (see `probe`): answered, not part of the observation
        let _ = rq.respond(Response::from_string("alive"));
        return;
    }
    let mut ob = describe_request(&rq);
    read_body(&mut rq, &plan.read, &mut ob);
    // record before finishing: finishing may block for ever
    let slot = {
        let mut o = obs.lock().unwrap();
        o.reqs.push(ob.clone());
        o.reqs.len() - 1
    };
    finish_request(rq, id, &plan.finish, &mut ob);
    obs.lock().unwrap().reqs[slot] = ob;
}

fn plan_for(app: &AppProgram, i: usize) -> ReqPlan {
    app.plans[i.min(app.plans.len() - 1)].clone()
}

/// The application thread: receives requests and handles them per program until
/// `unblock` is called.
pub fn app_thread(server: Arc<Server>, app: AppProgram, obs: SharedObs) {
    let mut next_id = 0usize;
    let mut stash: Vec<Request> = Vec::new();
    let mut deferred = app.deferred;
    let mut handlers = Vec::new();
    loop {
        let got: Result<Option<Request>, String> = match app.recv {
            RecvStyle::Recv => server.recv().map(Some).map_err(|e| e.to_string()),
            RecvStyle::Iter => match server.incoming_requests().next() {
                Some(r) => Ok(Some(r)),
                None => Err("iterator ended".into()),
            },
            RecvStyle::RecvTimeout(ms) => server
                .recv_timeout(Duration::from_millis(ms))
                .map_err(|e| e.to_string()),
        };
        match got {
            Ok(Some(rq)) => {
                if deferred {
                    // the request is looked at when it arrives, handled later
                    stash.push(rq);
                } else if app.thread_per_request {
                    let plan = plan_for(&app, next_id);
                    let (o, id) = (obs.clone(), next_id);
                    handlers.push(thread::spawn_named(Some(format!("handler{}", id)), move || {
                        handle_request_slot(rq, id, &plan, &o)
                    }));
                    next_id += 1;
                } else {
                    let plan = plan_for(&app, next_id);
                    handle_request(rq, next_id, &plan, &obs);
                    next_id += 1;
                }
            }
            Ok(None) => {
                // recv_timeout expired: used as the "go"/"stop" signal as well
                if deferred {
                    deferred = false;
                    for rq in stash.drain(..) {
                        let plan = plan_for(&app, next_id);
                        handle_request(rq, next_id, &plan, &obs);
                        next_id += 1;
                    }
                } else {
                    break;
                }
            }
            Err(e) => {
                if deferred {
                    deferred = false;
                    for rq in stash.drain(..) {
                        let plan = plan_for(&app, next_id);
                        handle_request(rq, next_id, &plan, &obs);
                        next_id += 1;
                    }
                } else {
                    if e != "thread unblocked" && e != "iterator ended" {
                        obs.lock().unwrap().recv_errors.push(e);
                    }
                    break;
                }
            }
        }
    }
    for h in handlers {
        let _ = h.join();
    }
}

/// Like `handle_request`, but the observation is stored at index `id` (handler threads
/// finish in any order; the oracle wants delivery order).
pub fn handle_request_slot(mut rq: Request, id: usize, plan: &ReqPlan, obs: &SharedObs) {
    if rq.url() == "/probe" {
        let _ = rq.respond(Response::from_string("alive"));
        return;
    }
    let mut ob = describe_request(&rq);
    {
        let mut o = obs.lock().unwrap();
        while o.reqs.len() <= id {
            o.reqs.push(ReqObs::default());
        }
        o.reqs[id] = ob.clone();
    }
    read_body(&mut rq, &plan.read, &mut ob);
    obs.lock().unwrap().reqs[id] = ob.clone();
    finish_request(rq, id, &plan.finish, &mut ob);
    obs.lock().unwrap().reqs[id] = ob;
}

// ------------------------------------------------------------------------- JSON

pub fn step_json(s: &Step) -> Value {
    match s {
        Step::Send(b) => json!({"send": esc(b)}),
        Step::Settle => json!("settle"),
        Step::CloseWrite => json!("close_write"),
        Step::Close => json!("close"),
        Step::Reset => json!("reset"),
        Step::Drain => json!("drain"),
        Step::SleepMs(ms) => json!({"sleep_ms": ms}),
        Step::SendIfContinue(b) => json!({"send_if_continue": esc(b)}),
        Step::Connect => json!("connect"),
        Step::AppGo => json!("app_go"),
    }
}

pub fn step_from_json(v: &Value) -> Step {
    if let Some(s) = v.as_str() {
        return match s {
            "settle" => Step::Settle,
            "close_write" => Step::CloseWrite,
            "close" => Step::Close,
            "reset" => Step::Reset,
            "drain" => Step::Drain,
            "connect" => Step::Connect,
            _ => Step::AppGo,
        };
    }
    if let Some(b) = v["send"].as_str() {
        return Step::Send(unesc(b));
    }
    if let Some(b) = v["send_if_continue"].as_str() {
        return Step::SendIfContinue(unesc(b));
    }
    Step::SleepMs(v["sleep_ms"].as_u64().unwrap_or(0))
}

pub fn read_plan_json(p: &ReadPlan) -> Value {
    match p {
        ReadPlan::None => json!("none"),
        ReadPlan::ReadToEnd => json!("read_to_end"),
        ReadPlan::ThenZeroLengthRead { size, limit } => json!({"then_zero_length_read": {"size": size, "limit": limit}}),
        ReadPlan::OtherMethod { method } => json!({"other_method": method}),
        ReadPlan::Sizes {
            sizes,
            limit,
            extra,
            as_reader_calls,
        } => json!({"sizes": sizes, "limit": limit, "extra": extra, "as_reader_calls": as_reader_calls}),
    }
}

pub fn read_plan_from_json(v: &Value) -> ReadPlan {
    match v.as_str() {
        Some("none") => ReadPlan::None,
        Some("read_to_end") => ReadPlan::ReadToEnd,
        _ if v.get("other_method").is_some() => ReadPlan::OtherMethod { method: v["other_method"].as_u64().unwrap_or(0) as usize },
        _ if v.get("then_zero_length_read").is_some() => ReadPlan::ThenZeroLengthRead {
            size: v["then_zero_length_read"]["size"].as_u64().unwrap_or(1) as usize,
            limit: v["then_zero_length_read"]["limit"].as_u64().unwrap_or(0) as usize,
        },
        _ => ReadPlan::Sizes {
            sizes: v["sizes"]
                .as_array()
                .map(|a| a.iter().map(|x| x.as_u64().unwrap_or(1) as usize).collect())
                .unwrap_or_else(|| vec![4096]),
            limit: v["limit"].as_u64().map(|x| x as usize),
            extra: v["extra"].as_u64().unwrap_or(0) as usize,
            as_reader_calls: v["as_reader_calls"].as_u64().unwrap_or(1) as usize,
        },
    }
}

pub fn finish_json(f: &Finish) -> Value {
    match f {
        Finish::Respond(s) => json!({"respond": {"status": s.status, "body_len": s.body_len, "declared": s.declared, "threshold": s.threshold.map(|t| t.to_string()), "headers": s.headers}}),
        Finish::Writer { parts, flush } => json!({"writer": {"parts": parts.iter().map(|p| esc(p)).collect::<Vec<_>>(), "flush": flush}}),
        Finish::Upgrade => json!("upgrade"),
        Finish::Drop => json!("drop"),
        Finish::RespondFailingReader { len, after } => json!({"respond_failing_reader": {"len": len, "after": after}}),
        Finish::Panic => json!("panic"),
    }
}

pub fn finish_from_json(v: &Value) -> Finish {
    match v.as_str() {
        Some("upgrade") => return Finish::Upgrade,
        Some("drop") => return Finish::Drop,
        Some("panic") => return Finish::Panic,
        _ => (),
    }
    if let Some(w) = v.get("respond_failing_reader") {
        return Finish::RespondFailingReader {
            len: w["len"].as_u64().unwrap_or(64) as usize,
            after: w["after"].as_u64().unwrap_or(0) as usize,
        };
    }
    if let Some(w) = v.get("writer") {
        return Finish::Writer {
            parts: w["parts"]
                .as_array()
                .map(|a| a.iter().map(|p| unesc(p.as_str().unwrap_or(""))).collect())
                .unwrap_or_default(),
            flush: w["flush"].as_bool().unwrap_or(false),
        };
    }
    let r = &v["respond"];
    Finish::Respond(RespSpec {
        status: r["status"].as_u64().unwrap_or(200) as u16,
        body_len: r["body_len"].as_u64().unwrap_or(0) as usize,
        declared: r["declared"].as_bool().unwrap_or(true),
        threshold: r["threshold"].as_str().and_then(|s| s.parse().ok()),
        headers: r["headers"].as_u64().unwrap_or(0) as usize,
    })
}

pub fn scenario_json(sc: &Scenario) -> Value {
    json!({
        "conns": sc.conns.iter().map(|c| json!({
            "unnamed_peer": c.unnamed_peer, "capacity": c.capacity,
            "cut": c.cut.map(|(n, k)| json!({"after": n, "kind": if k == CutKind::Close { "close" } else { "reset" }})),
        })).collect::<Vec<_>>(),
        "script": sc.script.iter().map(|(c, s)| json!([c, step_json(s)])).collect::<Vec<_>>(),
        "app": {
            "plans": sc.app.plans.iter().map(|p| json!({"read": read_plan_json(&p.read), "finish": finish_json(&p.finish)})).collect::<Vec<_>>(),
            "recv": match sc.app.recv { RecvStyle::Recv => json!("recv"), RecvStyle::Iter => json!("iter"), RecvStyle::RecvTimeout(ms) => json!({"recv_timeout_ms": ms}) },
            "deferred": sc.app.deferred,
            "thread_per_request": sc.app.thread_per_request,
        },
        "probe_after": sc.probe_after,
        "idle_after": sc.idle_after,
    })
}

pub fn scenario_from_json(v: &Value) -> Scenario {
    let conns = v["conns"]
        .as_array()
        .map(|a| {
            a.iter()
                .map(|c| ConnSpec {
                    unnamed_peer: c["unnamed_peer"].as_bool().unwrap_or(false),
                    capacity: c["capacity"].as_u64().map(|x| x as usize),
                    cut: c.get("cut").and_then(|k| {
                        k["after"].as_u64().map(|n| {
                            (
                                n,
                                if k["kind"].as_str() == Some("reset") {
                                    CutKind::Reset
                                } else {
                                    CutKind::Close
                                },
                            )
                        })
                    }),
                })
                .collect()
        })
        .unwrap_or_else(|| vec![ConnSpec::default()]);
    let script = v["script"]
        .as_array()
        .map(|a| {
            a.iter()
                .map(|e| (e[0].as_u64().unwrap_or(0) as usize, step_from_json(&e[1])))
                .collect()
        })
        .unwrap_or_default();
    let app = &v["app"];
    let plans: Vec<ReqPlan> = app["plans"]
        .as_array()
        .map(|a| {
            a.iter()
                .map(|p| ReqPlan {
                    read: read_plan_from_json(&p["read"]),
                    finish: finish_from_json(&p["finish"]),
                })
                .collect()
        })
        .unwrap_or_else(|| vec![ReqPlan::simple()]);
    Scenario {
        conns,
        script,
        app: AppProgram {
            plans,
            recv: match app["recv"].as_str() {
                Some("iter") => RecvStyle::Iter,
                Some(_) => RecvStyle::Recv,
                None => app["recv"]["recv_timeout_ms"]
                    .as_u64()
                    .map(RecvStyle::RecvTimeout)
                    .unwrap_or(RecvStyle::Recv),
            },
            deferred: app["deferred"].as_bool().unwrap_or(false),
            thread_per_request: app["thread_per_request"].as_bool().unwrap_or(false),
        },
        probe_after: v["probe_after"].as_bool().unwrap_or(false),
        idle_after: v["idle_after"].as_bool().unwrap_or(false),
    }
}


// ------------------------------------------------------------------------- conformance form

/// The observation in the form compared between the in-memory network and kernel
/// sockets: what the application received and what the client got back, without
/// anything that legitimately differs (Date, ports, write segmentation).
pub fn canon_conformance(o: &Obs) -> Value {
    let heads: Vec<bool> = o.reqs.iter().map(|r| r.method == "HEAD").collect();
    json!({
        "requests": o.reqs.iter().map(|r| json!({
            "method": r.method, "url": esc(r.url.as_bytes()), "version": [r.version.0, r.version.1],
            "headers": r.headers.iter().map(|(n, v)| format!("{}: {}", n, v)).collect::<Vec<_>>(),
            "body": esc(&r.body), "eof_seen": r.eof_seen, "body_length": r.body_length,
            "read_error": r.read_error.is_some(), "finish": r.finish,
            "peer": if r.remote_addr.is_some() { "ip" } else { "none" },
        })).collect::<Vec<_>>(),
        "connections": o.conns.iter().map(|c| {
            let st = crate::httpparse::parse_stream(&c.received, &heads);
            json!({
                "messages": st.msgs.iter().map(|m| json!({
                    "status": m.status, "version": [m.version.0, m.version.1],
                    "headers": m.headers.iter().filter(|(n, _)| !n.eq_ignore_ascii_case("date")).map(|(n, v)| format!("{}: {}", n, v)).collect::<Vec<_>>(),
                    "body": esc(&m.body), "after_upgrade": esc(&m.after_upgrade),
                })).collect::<Vec<_>>(),
                "parse_error": st.error.as_ref().map(|e| e.what.clone()),
                "eof": c.eof_at_script_end,
            })
        }).collect::<Vec<_>>(),
        "recv_errors": o.recv_errors.len(),
    })
}
