//! std threads with the small API the portable request-handling code uses.

pub struct JoinHandle<T>(std::thread::JoinHandle<T>);

impl<T> JoinHandle<T> {
    pub fn join(self) -> std::thread::Result<T> {
        self.0.join()
    }
}

pub fn spawn_named<F, T>(name: Option<String>, f: F) -> JoinHandle<T>
where
    F: FnOnce() -> T + Send + 'static,
    T: Send + 'static,
{
    let mut b = std::thread::Builder::new();
    if let Some(n) = name {
        b = b.name(n);
    }
    JoinHandle(b.spawn(f).expect("spawn"))
}
