use tiny_http::verif_rt::core::RunCfg;
use verif_harness::runner::*;

fn main() {
    let arg = std::env::args().nth(1).unwrap_or_default();
    let bytes: Vec<u8> = if arg.is_empty() {
        b"GET /a HTTP/1.1\r\nHost: x\r\n\r\nPOST /b HTTP/1.1\r\nContent-Length: 3\r\n\r\nabc".to_vec()
    } else {
        verif_harness::infra::unesc(&arg)
    };
    let sc = Scenario::one_conn(vec![bytes], AppProgram::simple());
    let rc = RunCfg {
        trace: std::env::var("TRACE").is_ok(),
        ..RunCfg::default()
    };
    let t0 = std::time::Instant::now();
    let (obs, res) = run_scenario(&sc, &rc);
    for l in &res.trace {
        println!("{}", l);
    }
    println!("{}", serde_json::to_string_pretty(&obs_json(&obs, &res)).unwrap());
    println!(
        "steps={} points={} decisions={} threads={} leaked={} clock={}ms wall={:?}",
        res.steps, res.points, res.decisions.len(), res.threads_spawned, res.leaked_threads, res.clock / 1_000_000, t0.elapsed()
    );
    let t0 = std::time::Instant::now();
    for _ in 0..200 {
        let _ = run_scenario(&sc, &RunCfg::default());
    }
    println!("200 runs: {:?}", t0.elapsed());
}
