//! Conformance runner (hooks OFF): replays scenario files over real kernel sockets and
//! prints the same canonical observation the in-memory runner produces, plus the clauses
//! that only exist on real sockets (peer address, UNIX path removal, wall-clock bounds).

#[cfg(tiny_http_verif)]
fn main() {
    eprintln!("realsock must be built without --cfg tiny_http_verif");
    std::process::exit(2);
}

#[cfg(not(tiny_http_verif))]
fn main() {
    real::main();
}

#[cfg(not(tiny_http_verif))]
mod real {
    use serde_json::{json, Value};
    use std::io::{Read, Write};
    use std::net::{Shutdown, TcpStream};
    use std::os::unix::io::AsRawFd;
    use std::os::unix::net::UnixStream;
    use std::sync::{Arc, Mutex};
    use std::time::{Duration, Instant};
    use tiny_http::{Response, Server};
    use verif_harness::scenario::*;

    /// how long the real-socket runner waits for the server to become quiet (the in-memory
    /// runner has true quiescence); longer on request (VERIF_SETTLE_MS) for loaded machines
    fn settle_time() -> Duration {
        Duration::from_millis(std::env::var("VERIF_SETTLE_MS").ok().and_then(|s| s.parse().ok()).unwrap_or(80))
    }

    enum Sock {
        Tcp(TcpStream),
        Unix(UnixStream),
    }

    impl Sock {
        fn write_all(&mut self, b: &[u8]) -> std::io::Result<()> {
            match self {
                Sock::Tcp(s) => s.write_all(b),
                Sock::Unix(s) => s.write_all(b),
            }
        }
        fn shutdown(&self, how: Shutdown) {
            let _ = match self {
                Sock::Tcp(s) => s.shutdown(how),
                Sock::Unix(s) => s.shutdown(how),
            };
        }
        fn set_timeout(&self, d: Duration) {
            let _ = match self {
                Sock::Tcp(s) => s.set_read_timeout(Some(d)),
                Sock::Unix(s) => s.set_read_timeout(Some(d)),
            };
        }
        fn read(&mut self, b: &mut [u8]) -> std::io::Result<usize> {
            match self {
                Sock::Tcp(s) => s.read(b),
                Sock::Unix(s) => s.read(b),
            }
        }
        fn fd(&self) -> i32 {
            match self {
                Sock::Tcp(s) => s.as_raw_fd(),
                Sock::Unix(s) => s.as_raw_fd(),
            }
        }
        fn local_addr(&self) -> Option<String> {
            match self {
                Sock::Tcp(s) => s.local_addr().ok().map(|a| a.to_string()),
                Sock::Unix(_) => None,
            }
        }
    }

    fn set_linger0(fd: i32) {
        #[allow(unsafe_code)]
        unsafe {
            let l = libc::linger { l_onoff: 1, l_linger: 0 };
            libc::setsockopt(
                fd,
                libc::SOL_SOCKET,
                libc::SO_LINGER,
                &l as *const _ as *const libc::c_void,
                std::mem::size_of::<libc::linger>() as u32,
            );
        }
    }

    /// reads what is available; returns (eof seen, reset seen)
    fn absorb(s: &mut Sock, ob: &mut ConnObs) {
        s.set_timeout(Duration::from_millis(40));
        let mut buf = [0u8; 65536];
        loop {
            match s.read(&mut buf) {
                Ok(0) => {
                    ob.eof = true;
                    break;
                }
                Ok(n) => {
                    ob.segments.push(n);
                    ob.received.extend_from_slice(&buf[..n]);
                }
                Err(e) => {
                    if e.kind() == std::io::ErrorKind::ConnectionReset {
                        ob.reset = true;
                    }
                    break;
                }
            }
        }
    }

    fn run_scenario(sc: &Scenario, idx: usize) -> (Obs, Value) {
        let unix = sc.conns[0].unnamed_peer;
        let path = std::env::temp_dir().join(format!("verif-realsock-{}-{}.sock", std::process::id(), idx));
        let server = if unix {
            let _ = std::fs::remove_file(&path);
            Server::http_unix(&path).expect("unix server")
        } else {
            Server::http("127.0.0.1:0").expect("tcp server")
        };
        let port = server.server_addr().to_ip().map(|a| a.port());
        let server = Arc::new(server);
        let obs: SharedObs = Arc::new(Mutex::new(Obs::default()));
        obs.lock().unwrap().conns = vec![ConnObs::default(); sc.conns.len()];
        let app = {
            let (s, a, o) = (server.clone(), sc.app.clone(), obs.clone());
            std::thread::spawn(move || app_thread(s, a, o))
        };
        std::thread::sleep(settle_time());
        let mut socks: Vec<Option<Sock>> = (0..sc.conns.len()).map(|_| None).collect();
        let mut local_addrs: Vec<Option<String>> = vec![None; sc.conns.len()];
        for (ci, step) in &sc.script {
            let ci = *ci;
            if socks[ci].is_none() && !matches!(step, Step::AppGo | Step::Settle | Step::SleepMs(_)) {
                let s = if unix {
                    UnixStream::connect(&path).map(Sock::Unix)
                } else {
                    TcpStream::connect(("127.0.0.1", port.unwrap())).map(Sock::Tcp)
                };
                match s {
                    Ok(s) => {
                        local_addrs[ci] = s.local_addr();
                        socks[ci] = Some(s);
                        obs.lock().unwrap().conns[ci].connected = true;
                    }
                    Err(_) => continue,
                }
            }
            match step {
                Step::Connect => (),
                Step::Send(b) => {
                    let _ = socks[ci].as_mut().unwrap().write_all(b);
                    let mut o = obs.lock().unwrap();
                    o.conns[ci].sent += b.len() as u64;
                    o.conns[ci].sent_bytes.extend_from_slice(b);
                }
                Step::Settle => std::thread::sleep(settle_time()),
                Step::CloseWrite => socks[ci].as_ref().unwrap().shutdown(Shutdown::Write),
                Step::Close => {
                    let mut co = obs.lock().unwrap().conns[ci].clone();
                    absorb(socks[ci].as_mut().unwrap(), &mut co);
                    obs.lock().unwrap().conns[ci] = co;
                    socks[ci].as_ref().unwrap().shutdown(Shutdown::Both);
                }
                Step::Reset => {
                    let mut co = obs.lock().unwrap().conns[ci].clone();
                    absorb(socks[ci].as_mut().unwrap(), &mut co);
                    obs.lock().unwrap().conns[ci] = co;
                    let s = socks[ci].take().unwrap();
                    set_linger0(s.fd());
                    drop(s);
                }
                Step::Drain => {
                    let mut co = obs.lock().unwrap().conns[ci].clone();
                    absorb(socks[ci].as_mut().unwrap(), &mut co);
                    obs.lock().unwrap().conns[ci] = co;
                }
                Step::SleepMs(ms) => std::thread::sleep(Duration::from_millis(*ms)),
                Step::SendIfContinue(b) => {
                    std::thread::sleep(settle_time());
                    let mut co = obs.lock().unwrap().conns[ci].clone();
                    absorb(socks[ci].as_mut().unwrap(), &mut co);
                    let has_100 = verif_harness::httpparse::parse_stream(&co.received, &[]).msgs.iter().any(|m| m.status == 100);
                    obs.lock().unwrap().conns[ci] = co;
                    if has_100 {
                        let _ = socks[ci].as_mut().unwrap().write_all(b);
                        let mut o = obs.lock().unwrap();
                        o.conns[ci].sent += b.len() as u64;
                        o.conns[ci].sent_bytes.extend_from_slice(b);
                    } else {
                        socks[ci].as_ref().unwrap().shutdown(Shutdown::Write);
                        obs.lock().unwrap().conns[ci].gave_up = true;
                    }
                }
                Step::AppGo => server.unblock(),
            }
        }
        std::thread::sleep(settle_time());
        obs.lock().unwrap().script_done = true;
        for ci in 0..socks.len() {
            if let Some(s) = socks[ci].as_mut() {
                let mut co = obs.lock().unwrap().conns[ci].clone();
                absorb(s, &mut co);
                co.eof_at_script_end = co.eof;
                co.received_at_script_end = co.received.len();
                obs.lock().unwrap().conns[ci] = co;
            }
        }
        server.unblock();
        if sc.app.deferred {
            std::thread::sleep(settle_time());
            server.unblock();
        }
        let _ = app.join();
        for s in socks.iter().flatten() {
            s.shutdown(Shutdown::Write);
        }
        std::thread::sleep(settle_time());
        for ci in 0..socks.len() {
            if let Some(s) = socks[ci].as_mut() {
                let mut co = obs.lock().unwrap().conns[ci].clone();
                absorb(s, &mut co);
                obs.lock().unwrap().conns[ci] = co;
            }
        }
        drop(socks);
        let o = obs.lock().unwrap().clone();
        // real-socket-only clause of C02: the peer address is the client's socket address
        let mut peer_ok = true;
        for r in &o.reqs {
            if unix {
                peer_ok &= r.remote_addr.is_none();
            } else {
                peer_ok &= r.remote_addr.is_some() && local_addrs.iter().flatten().any(|a| Some(a) == r.remote_addr.as_ref());
            }
        }
        drop(server);
        let extra = json!({"peer_address_is_clients": peer_ok, "unix": unix,
            "unix_path_removed_after_drop": if unix { Some(!path.exists()) } else { None }});
        (o, extra)
    }

    /// Is there a listening TCP socket on this port (any address, IPv4 or IPv6)?  Read from
    /// /proc/net/tcp and /proc/net/tcp6: purely passive.
    fn listening(port: u16) -> bool {
        let suffix = format!(":{:04X}", port);
        for f in ["/proc/net/tcp", "/proc/net/tcp6"] {
            if let Ok(t) = std::fs::read_to_string(f) {
                for l in t.lines().skip(1) {
                    let mut it = l.split_whitespace();
                    let (_, local, _, st) = (it.next(), it.next().unwrap_or(""), it.next(), it.next().unwrap_or(""));
                    if st == "0A" && local.ends_with(&suffix) {
                        return true;
                    }
                }
            }
        }
        false
    }

    fn tasks() -> usize {
        std::fs::read_dir("/proc/self/task").map(|d| d.count()).unwrap_or(0)
    }

    /// Clauses that only exist on kernel sockets / the wall clock.
    fn real_only() -> Value {
        let mut out = serde_json::Map::new();
        // C20: after drop new connections are refused within a short bounded time
        {
            let server = Server::http("127.0.0.1:0").unwrap();
            let addr = server.server_addr().to_ip().unwrap();
            let c = TcpStream::connect(addr).is_ok();
            drop(server);
            let t0 = Instant::now();
            let mut refused_after = None;
            while t0.elapsed() < Duration::from_secs(2) {
                if TcpStream::connect(addr).is_err() {
                    refused_after = Some(t0.elapsed().as_millis() as u64);
                    break;
                }
                std::thread::sleep(Duration::from_millis(5));
            }
            out.insert("tcp_connect_before_drop".into(), json!(c));
            out.insert("tcp_refused_after_drop_ms".into(), json!(refused_after));
        }
        // C02 on every address family: the peer address handed to the application is the client's
        // socket address (an IPv4 client of a dual-stack listener may be shown in its
        // IPv4-mapped form; compared after unmapping)
        {
            let canon = |a: std::net::SocketAddr| -> std::net::SocketAddr {
                match a {
                    std::net::SocketAddr::V6(v6) => match v6.ip().octets() {
                        [0, 0, 0, 0, 0, 0, 0, 0, 0, 0, 0xff, 0xff, a, b, c, d] => std::net::SocketAddr::new(std::net::IpAddr::V4(std::net::Ipv4Addr::new(a, b, c, d)), v6.port()),
                        _ => std::net::SocketAddr::V6(v6),
                    },
                    v4 => v4,
                }
            };
            let mut rows = Vec::new();
            for (bind, via) in [
                ("127.0.0.1:0", "127.0.0.1"),
                ("127.0.0.2:0", "127.0.0.2"),
                ("0.0.0.0:0", "127.0.0.1"),
                ("0.0.0.0:0", "127.9.8.7"),
                ("[::1]:0", "::1"),
                ("[::]:0", "::1"),
                ("[::]:0", "127.0.0.1"),
            ] {
                let server = match Server::http(bind) {
                    Ok(s) => s,
                    Err(e) => {
                        rows.push(json!({"bind": bind, "bound": false, "error": e.to_string()}));
                        continue;
                    }
                };
                let port = server.server_addr().to_ip().unwrap().port();
                let target = format!("{}:{}", if via.contains(':') { format!("[{}]", via) } else { via.to_string() }, port);
                match TcpStream::connect(&target) {
                    Ok(mut c) => {
                        let local = c.local_addr().ok();
                        let _ = c.write_all(b"GET /peer HTTP/1.1\r\nHost: t\r\nConnection: close\r\n\r\n");
                        let seen = match server.recv_timeout(Duration::from_secs(10)) {
                            Ok(Some(rq)) => {
                                let a = rq.remote_addr().copied();
                                let _ = rq.respond(Response::from_string("x"));
                                a
                            }
                            _ => None,
                        };
                        rows.push(json!({"bind": bind, "connect_to": target, "bound": true, "connected": true,
                            "client_socket_address": local.map(|a| a.to_string()), "reported_to_application": seen.map(|a| a.to_string()),
                            "equal_after_unmapping": local.is_some() && local.map(canon) == seen.map(canon)}));
                    }
                    Err(e) => rows.push(json!({"bind": bind, "connect_to": target, "bound": true, "connected": false, "error": e.to_string()})),
                }
            }
            out.insert("tcp_peer_address_by_family".into(), json!(rows));
        }
        // C20 on every class of bind address: after the drop nobody connects for a grace period
        // (a polling client would itself be the wake-up the accept thread may be waiting for),
        // then the very FIRST attempt must be refused
        {
            let mut rows = Vec::new();
            for (bind, via) in [
                ("127.0.0.1:0", "127.0.0.1"),
                ("127.0.0.2:0", "127.0.0.2"),
                ("127.1.2.3:0", "127.1.2.3"),
                ("0.0.0.0:0", "127.0.0.1"),
                ("0.0.0.0:0", "127.0.0.2"),
                ("[::1]:0", "::1"),
                ("[::]:0", "::1"),
                ("localhost:0", "localhost"),
            ] {
                for served_before in [false, true] {
                    let server = match Server::http(bind) {
                        Ok(s) => s,
                        Err(e) => {
                            rows.push(json!({"bind": bind, "bound": false, "error": e.to_string()}));
                            continue;
                        }
                    };
                    let port = server.server_addr().to_ip().unwrap().port();
                    let target = format!("{}:{}", if via.contains(':') { format!("[{}]", via) } else { via.to_string() }, port);
                    let mut before = true;
                    if served_before {
                        before = match TcpStream::connect(&target) {
                            Ok(mut c) => {
                                let _ = c.write_all(b"GET / HTTP/1.1\r\nHost: t\r\nConnection: close\r\n\r\n");
                                match server.recv_timeout(Duration::from_secs(10)) {
                                    Ok(Some(rq)) => {
                                        let _ = rq.respond(tiny_http::Response::from_string("x"));
                                        true
                                    }
                                    _ => false,
                                }
                            }
                            Err(_) => false,
                        };
                    }
                    drop(server);
                    // watch passively (/proc/net/tcp*, no connection attempt: that would be the
                    // wake-up the accept thread may be waiting for) until the listening socket
                    // is gone, for at most 3 s; a loaded machine may need more than a moment
                    let t0 = Instant::now();
                    let mut gone_after_ms = None;
                    while t0.elapsed() < Duration::from_secs(3) {
                        if !listening(port) {
                            gone_after_ms = Some(t0.elapsed().as_millis() as u64);
                            break;
                        }
                        std::thread::sleep(Duration::from_millis(10));
                    }
                    // then the very first attempt must be refused (if the port is still
                    // listening after 3 s the attempt is not made at all)
                    let refused = gone_after_ms.is_some() && TcpStream::connect(&target).is_err();
                    rows.push(json!({"bind": bind, "connect_to": target, "bound": true, "served_a_request_before": served_before, "served_ok": before,
                        "listening_socket_gone_after_ms": gone_after_ms, "first_attempt_500ms_after_drop_refused": refused}));
                }
            }
            out.insert("tcp_drop_by_bind_address".into(), json!(rows));
        }
        // C20 for every way of constructing the server: after the drop the listening socket is
        // gone, a connection attempt is refused and (UNIX) the socket path is removed
        {
            let mut rows = Vec::new();
            let dir = std::env::temp_dir();
            for (k, how) in ["http_unix", "Server::new(ConfigListenAddr::unix_from_path)", "from_listener(UnixListener::bind)", "http_unix with a relative path"].iter().enumerate() {
                let path = dir.join(format!("verif-realsock-{}-ctor{}.sock", std::process::id(), k));
                let _ = std::fs::remove_file(&path);
                let server = match k {
                    0 => Server::http_unix(&path),
                    1 => Server::new(tiny_http::ServerConfig { addr: tiny_http::ConfigListenAddr::unix_from_path(&path), ssl: None }),
                    2 => std::os::unix::net::UnixListener::bind(&path).map_err(|e| e.into()).and_then(|l| Server::from_listener(l, None)),
                    _ => {
                        // relative to the current directory, which is changed to the temp dir
                        let _ = std::env::set_current_dir(&dir);
                        Server::http_unix(std::path::Path::new(path.file_name().unwrap()))
                    }
                };
                let server = match server {
                    Ok(s) => s,
                    Err(e) => {
                        rows.push(json!({"constructed_by": how, "constructed": false, "error": e.to_string()}));
                        continue;
                    }
                };
                let served = match UnixStream::connect(&path) {
                    Ok(mut c) => {
                        let _ = c.write_all(b"GET /u HTTP/1.1\r\nHost: t\r\nConnection: close\r\n\r\n");
                        match server.recv_timeout(Duration::from_secs(10)) {
                            Ok(Some(rq)) => {
                                let none = rq.remote_addr().is_none();
                                let _ = rq.respond(Response::from_string("x"));
                                none
                            }
                            _ => false,
                        }
                    }
                    Err(_) => false,
                };
                drop(server);
                let t0 = Instant::now();
                let mut removed_after_ms = None;
                while t0.elapsed() < Duration::from_secs(3) {
                    if !path.exists() {
                        removed_after_ms = Some(t0.elapsed().as_millis() as u64);
                        break;
                    }
                    std::thread::sleep(Duration::from_millis(10));
                }
                let refused = UnixStream::connect(&path).is_err();
                let _ = std::fs::remove_file(&path);
                rows.push(json!({"constructed_by": how, "constructed": true, "served_with_peer_address_none": served, "path_removed_after_ms": removed_after_ms, "connect_refused_after_drop": refused}));
            }
            // TCP listeners handed in through from_listener / Server::new
            for (k, how) in ["from_listener(TcpListener::bind)", "Server::new(ConfigListenAddr::from_socket_addrs)"].iter().enumerate() {
                let server = match k {
                    0 => std::net::TcpListener::bind("127.0.0.1:0").map_err(|e| e.into()).and_then(|l| Server::from_listener(l, None)),
                    _ => tiny_http::ConfigListenAddr::from_socket_addrs("127.0.0.1:0").map_err(|e| e.into()).and_then(|a| Server::new(tiny_http::ServerConfig { addr: a, ssl: None })),
                };
                let server = match server {
                    Ok(s) => s,
                    Err(e) => {
                        rows.push(json!({"constructed_by": how, "constructed": false, "error": e.to_string()}));
                        continue;
                    }
                };
                let addr = server.server_addr().to_ip().unwrap();
                let served = match TcpStream::connect(addr) {
                    Ok(mut c) => {
                        let _ = c.write_all(b"GET /t HTTP/1.1\r\nHost: t\r\nConnection: close\r\n\r\n");
                        match server.recv_timeout(Duration::from_secs(10)) {
                            Ok(Some(rq)) => {
                                let _ = rq.respond(Response::from_string("x"));
                                true
                            }
                            _ => false,
                        }
                    }
                    Err(_) => false,
                };
                drop(server);
                let t0 = Instant::now();
                let mut gone = None;
                while t0.elapsed() < Duration::from_secs(3) {
                    if !listening(addr.port()) {
                        gone = Some(t0.elapsed().as_millis() as u64);
                        break;
                    }
                    std::thread::sleep(Duration::from_millis(10));
                }
                let refused = gone.is_some() && TcpStream::connect(addr).is_err();
                rows.push(json!({"constructed_by": how, "constructed": true, "served": served, "listening_socket_gone_after_ms": gone, "connect_refused_after_drop": refused}));
            }
            out.insert("drop_by_construction".into(), json!(rows));
        }
        // C15: after an orderly FULL close by the client (close(2), not a half-close) the
        // complete requests it sent are still delivered, whatever the kernel says about the
        // connection after the server's first answer drew a reset
        {
            let big = "b".repeat(2000);
            let get = |u: &str| format!("GET {} HTTP/1.1\r\nHost: t\r\n\r\n", u).into_bytes();
            let post = |u: &str, body: &str| format!("POST {} HTTP/1.1\r\nHost: t\r\nContent-Length: {}\r\n\r\n{}", u, body.len(), body).into_bytes();
            let chunked = |u: &str| {
                let mut v = format!("POST {} HTTP/1.1\r\nHost: t\r\nTransfer-Encoding: chunked\r\n\r\n", u).into_bytes();
                for _ in 0..3 {
                    v.extend_from_slice(format!("3e8\r\n{}\r\n", "c".repeat(1000)).as_bytes());
                }
                v.extend_from_slice(b"0\r\n\r\n");
                v
            };
            let pipelines: Vec<(&str, Vec<u8>, Vec<&str>)> = vec![
                ("get,get", [get("/1"), get("/2")].concat(), vec!["/1", "/2"]),
                ("post2000,get", [post("/1", &big), get("/2")].concat(), vec!["/1", "/2"]),
                ("chunked3000,get", [chunked("/1"), get("/2")].concat(), vec!["/1", "/2"]),
                ("post2000,post2000,get", [post("/1", &big), post("/2", &big), get("/3")].concat(), vec!["/1", "/2", "/3"]),
                ("get,post5,get", [get("/1"), post("/2", "hello"), get("/3")].concat(), vec!["/1", "/2", "/3"]),
                ("expect-post2000,get", [format!("POST /1 HTTP/1.1\r\nHost: t\r\nExpect: 100-continue\r\nContent-Length: 2000\r\n\r\n{}", big).into_bytes(), get("/2")].concat(), vec!["/1", "/2"]),
            ];
            let mut rows = Vec::new();
            let mut idx = 0;
            for unix in [false, true] {
                for read_body in [false, true] {
                    for (name, bytes, want) in &pipelines {
                        idx += 1;
                        let path = std::env::temp_dir().join(format!("verif-realsock-{}-fullclose-{}.sock", std::process::id(), idx));
                        let _ = std::fs::remove_file(&path);
                        let server = if unix { Server::http_unix(&path).unwrap() } else { Server::http("127.0.0.1:0").unwrap() };
                        if unix {
                            let mut c = UnixStream::connect(&path).unwrap();
                            let _ = c.write_all(bytes);
                            drop(c);
                        } else {
                            let mut c = TcpStream::connect(server.server_addr().to_ip().unwrap()).unwrap();
                            let _ = c.write_all(bytes);
                            drop(c);
                        }
                        // the close has reached the server before anything is answered
                        std::thread::sleep(Duration::from_millis(100));
                        let mut delivered: Vec<String> = Vec::new();
                        while let Ok(Some(mut rq)) = server.recv_timeout(Duration::from_millis(700)) {
                            delivered.push(rq.url().to_string());
                            if read_body {
                                let mut sink = Vec::new();
                                let _ = rq.as_reader().read_to_end(&mut sink);
                            }
                            let _ = rq.respond(Response::from_string("ok"));
                        }
                        drop(server);
                        let _ = std::fs::remove_file(&path);
                        rows.push(json!({"socket": if unix { "unix" } else { "tcp" }, "pipeline": name, "application_reads_bodies": read_body, "sent": want, "delivered": delivered}));
                    }
                }
            }
            out.insert("delivered_after_full_close".into(), json!(rows));
        }
        {
            let path = std::env::temp_dir().join(format!("verif-realsock-{}-drop.sock", std::process::id()));
            let _ = std::fs::remove_file(&path);
            let server = Server::http_unix(&path).unwrap();
            let c = UnixStream::connect(&path).is_ok();
            drop(server);
            let t0 = Instant::now();
            let mut refused_after = None;
            while t0.elapsed() < Duration::from_secs(2) {
                if UnixStream::connect(&path).is_err() && !path.exists() {
                    refused_after = Some(t0.elapsed().as_millis() as u64);
                    break;
                }
                std::thread::sleep(Duration::from_millis(5));
            }
            out.insert("unix_connect_before_drop".into(), json!(c));
            out.insert("unix_refused_and_path_removed_after_drop_ms".into(), json!(refused_after));
        }
        // C17: wall-clock bounds of recv_timeout, try_recv does not block
        {
            let server = Server::http("127.0.0.1:0").unwrap();
            let t0 = Instant::now();
            let r = server.recv_timeout(Duration::from_millis(200)).unwrap();
            let el = t0.elapsed().as_millis() as u64;
            out.insert("recv_timeout_200ms_returned_none_after_ms".into(), json!([r.is_none(), el]));
            let t0 = Instant::now();
            let r = server.try_recv().unwrap();
            out.insert("try_recv_empty_after_us".into(), json!([r.is_none(), t0.elapsed().as_micros() as u64]));
            server.unblock();
            let t0 = Instant::now();
            let r = server.recv();
            out.insert("recv_after_unblock_err_after_us".into(), json!([r.is_err(), t0.elapsed().as_micros() as u64]));
        }
        // C14 / C15: a client that resets before the server looks at the connection
        {
            let server = Arc::new(Server::http("127.0.0.1:0").unwrap());
            let addr = server.server_addr().to_ip().unwrap();
            let s2 = server.clone();
            let h = std::thread::spawn(move || {
                let mut n = 0;
                let mut errs: Vec<String> = Vec::new();
                let mut idle = 0;
                while idle < 2 {
                    match s2.recv_timeout(Duration::from_millis(700)) {
                        Ok(Some(rq)) => {
                            idle = 0;
                            n += 1;
                            let _ = rq.respond(Response::from_string("x"));
                        }
                        Ok(None) => idle += 1,
                        Err(e) => {
                            idle = 0;
                            if errs.len() < 5 {
                                errs.push(format!("{:?}: {}", e.kind(), e));
                            }
                        }
                    }
                }
                (n, errs)
            });
            for _ in 0..200 {
                if let Ok(mut s) = TcpStream::connect(addr) {
                    let _ = s.write_all(b"GET /gone HTTP/1.1\r\nHost: t\r\n\r\n");
                    set_linger0(s.as_raw_fd());
                    drop(s);
                }
            }
            std::thread::sleep(Duration::from_millis(200));
            // the server must still serve
            let mut ok = false;
            if let Ok(mut s) = TcpStream::connect(addr) {
                let _ = s.write_all(b"GET /alive HTTP/1.1\r\nHost: t\r\nConnection: close\r\n\r\n");
                let mut v = Vec::new();
                let _ = s.set_read_timeout(Some(Duration::from_secs(2)));
                let _ = s.read_to_end(&mut v);
                ok = v.starts_with(b"HTTP/1.1 200");
            }
            let (delivered, errs) = h.join().unwrap_or((0, vec![]));
            out.insert("after_200_reset_clients_server_alive".into(), json!(ok));
            out.insert("reset_clients_requests_delivered".into(), json!(delivered));
            out.insert("reset_clients_recv_errors".into(), json!(errs));
        }
        // C20: threads return to the baseline after a burst
        {
            let base = tasks();
            let server = Arc::new(Server::http("127.0.0.1:0").unwrap());
            let addr = server.server_addr().to_ip().unwrap();
            let s2 = server.clone();
            let h = std::thread::spawn(move || {
                while let Ok(rq) = s2.recv() {
                    let _ = rq.respond(Response::from_string("x"));
                }
            });
            std::thread::sleep(Duration::from_millis(100));
            let with_server = tasks();
            let mut cs = Vec::new();
            for _ in 0..32 {
                if let Ok(mut s) = TcpStream::connect(addr) {
                    let _ = s.write_all(b"GET /b HTTP/1.1\r\nHost: t\r\n\r\n");
                    cs.push(s);
                }
            }
            std::thread::sleep(Duration::from_millis(300));
            let mut answered = 0;
            for s in cs.iter_mut() {
                let _ = s.set_read_timeout(Some(Duration::from_millis(300)));
                let mut b = [0u8; 512];
                if let Ok(n) = s.read(&mut b) {
                    if b[..n].starts_with(b"HTTP/1.1 200") {
                        answered += 1;
                    }
                }
            }
            let during = tasks();
            drop(cs);
            std::thread::sleep(Duration::from_millis(6500));
            let after = tasks();
            // second phase: twelve connections that stay open for longer than any plausible
            // idle period measured so far (6 s), each answered once; then they close, and the
            // thread count is watched passively (every 250 ms, for at most 40 s) until it is
            // back at the level it had just before (`after`: the server idle for 6.5 s)
            let mut held = Vec::new();
            let mut held_answered = 0;
            for _ in 0..12 {
                if let Ok(mut s) = TcpStream::connect(addr) {
                    let _ = s.write_all(b"GET /held HTTP/1.1\r\nHost: t\r\n\r\n");
                    held.push(s);
                }
            }
            std::thread::sleep(Duration::from_millis(300));
            for s in held.iter_mut() {
                let _ = s.set_read_timeout(Some(Duration::from_millis(300)));
                let mut b = [0u8; 512];
                if let Ok(n) = s.read(&mut b) {
                    if b[..n].starts_with(b"HTTP/1.1 200") {
                        held_answered += 1;
                    }
                }
            }
            let during_held = tasks();
            std::thread::sleep(Duration::from_millis(6000));
            drop(held);
            let t0 = Instant::now();
            let mut back_after_ms: Option<u64> = None;
            while t0.elapsed() < Duration::from_secs(40) {
                if tasks() <= after {
                    back_after_ms = Some(t0.elapsed().as_millis() as u64);
                    break;
                }
                std::thread::sleep(Duration::from_millis(250));
            }
            out.insert("held12_answered".into(), json!(held_answered));
            out.insert("threads_during_held12".into(), json!(during_held));
            out.insert("threads_back_after_held12_closed_ms".into(), json!(back_after_ms));
            server.unblock();
            let _ = h.join();
            out.insert("burst32_answered".into(), json!(answered));
            out.insert("threads_base_withserver_during_after6s".into(), json!([base, with_server, during, after]));
        }
        Value::Object(out)
    }


    // ---------------------------------------------------------------- pauses (C13)
    // The same bytes with and without a long silence between two segments, over kernel
    // sockets (the in-memory network has no kernel timeouts to trip over): what the
    // application gets and what the client gets back must not depend on the pause.

    fn pause_case(unix: bool, case: &str, pause: Duration, idx: usize) -> Value {
        let big = "z".repeat(3000);
        let (part1, part2): (Vec<u8>, Vec<u8>) = match case {
            "inside-head" => (b"GET /a HTTP/1.1\r\nHo".to_vec(), b"st: t\r\n\r\n".to_vec()),
            "inside-small-body" => (b"POST /a HTTP/1.1\r\nHost: t\r\nContent-Length: 10\r\n\r\n01234".to_vec(), b"56789".to_vec()),
            "between-requests" => (b"GET /a HTTP/1.1\r\nHost: t\r\n\r\n".to_vec(), b"GET /b HTTP/1.1\r\nHost: t\r\n\r\n".to_vec()),
            "inside-chunked-body" => (b"POST /a HTTP/1.1\r\nHost: t\r\nTransfer-Encoding: chunked\r\n\r\n5\r\nhello\r\n".to_vec(), b"3\r\nabc\r\n0\r\n\r\n".to_vec()),
            _ => (
                format!("POST /a HTTP/1.1\r\nHost: t\r\nContent-Length: 3000\r\n\r\n{}", &big[..1500]).into_bytes(),
                big[1500..].as_bytes().to_vec(),
            ),
        };
        let path = std::env::temp_dir().join(format!("verif-realsock-{}-pause-{}.sock", std::process::id(), idx));
        let _ = std::fs::remove_file(&path);
        let server = Arc::new(if unix { Server::http_unix(&path).unwrap() } else { Server::http("127.0.0.1:0").unwrap() });
        let delivered: Arc<Mutex<Vec<String>>> = Arc::new(Mutex::new(Vec::new()));
        let (s2, d2) = (server.clone(), delivered.clone());
        let app = std::thread::spawn(move || {
            while let Ok(mut rq) = s2.recv() {
                let mut body = Vec::new();
                let r = rq.as_reader().read_to_end(&mut body);
                d2.lock().unwrap().push(format!("{} {} body={} read_error={:?}", rq.method(), rq.url(), body.len(), r.err().map(|e| e.kind())));
                let _ = rq.respond(Response::from_string("ok"));
            }
        });
        let mut sock = if unix {
            Sock::Unix(UnixStream::connect(&path).unwrap())
        } else {
            Sock::Tcp(TcpStream::connect(server.server_addr().to_ip().unwrap()).unwrap())
        };
        let _ = sock.write_all(&part1);
        std::thread::sleep(pause);
        let w2 = sock.write_all(&part2).is_ok();
        // read until the server has been silent for a second
        sock.set_timeout(Duration::from_millis(1000));
        let mut got = Vec::new();
        let mut buf = [0u8; 4096];
        let mut eof = false;
        loop {
            match sock.read(&mut buf) {
                Ok(0) => {
                    eof = true;
                    break;
                }
                Ok(n) => got.extend_from_slice(&buf[..n]),
                Err(_) => break,
            }
        }
        let st = verif_harness::httpparse::parse_stream(&got, &[]);
        let statuses: Vec<u16> = st.msgs.iter().map(|m| m.status).collect();
        server.unblock();
        let _ = app.join();
        drop(sock);
        let d = delivered.lock().unwrap().clone();
        let _ = std::fs::remove_file(&path);
        json!({"transport": if unix { "unix" } else { "tcp" }, "case": case, "pause_ms": pause.as_millis() as u64,
               "delivered": d, "statuses": statuses, "end_of_stream_seen": eof, "second_part_written": w2})
    }

    fn pauses(secs: u64) {
        let cases = ["inside-head", "inside-small-body", "between-requests", "inside-chunked-body", "inside-large-body"];
        let mut hs = Vec::new();
        let mut idx = 0;
        for unix in [false, true] {
            for case in cases {
                for pause in [Duration::from_millis(50), Duration::from_secs(secs)] {
                    idx += 1;
                    let i = idx;
                    hs.push(std::thread::spawn(move || pause_case(unix, case, pause, i)));
                }
            }
        }
        let rows: Vec<Value> = hs.into_iter().map(|h| h.join().unwrap_or(json!({"error": "case panicked"}))).collect();
        println!("{}", json!({"pause_rows": rows}));
    }

    pub fn main() {
        verif_harness::infra::install_discard_logger();
        if std::env::args().nth(1).as_deref() == Some("--pauses") {
            pauses(std::env::args().nth(2).and_then(|s| s.parse().ok()).unwrap_or(65));
            return;
        }
        let file = std::env::args().nth(1).expect("usage: realsock <scenarios.json> | --pauses <seconds>");
        let v: Value = serde_json::from_str(&std::fs::read_to_string(&file).expect("read")).expect("json");
        let list = v.as_array().expect("array").clone();
        let results: Arc<Mutex<Vec<Option<Value>>>> = Arc::new(Mutex::new(vec![None; list.len()]));
        let next = Arc::new(std::sync::atomic::AtomicUsize::new(0));
        let mut hs = Vec::new();
        for _ in 0..8 {
            let (list, results, next) = (list.clone(), results.clone(), next.clone());
            hs.push(std::thread::spawn(move || loop {
                let i = next.fetch_add(1, std::sync::atomic::Ordering::SeqCst);
                if i >= list.len() {
                    break;
                }
                let sc = scenario_from_json(&list[i]["scenario"]);
                let (obs, extra) = run_scenario(&sc, i);
                results.lock().unwrap()[i] = Some(json!({"name": list[i]["name"], "canon": canon_conformance(&obs), "extra": extra}));
            }));
        }
        for h in hs {
            let _ = h.join();
        }
        // after the scenario threads have ended: the thread counts need a quiet process
        std::thread::sleep(Duration::from_millis(300));
        let real_only = if std::env::var_os("VERIF_SCENARIOS_ONLY").is_some() {
            json!({})
        } else {
            std::thread::spawn(real_only).join().unwrap_or(json!({"error": "real-only clauses panicked"}))
        };
        let out = json!({"scenarios": results.lock().unwrap().iter().map(|x| x.clone().unwrap_or(Value::Null)).collect::<Vec<_>>(), "real_only": real_only});
        println!("{}", out);
    }
}
