#[cfg(not(tiny_http_verif))]
fn main() {
    eprintln!("check must be built with --cfg tiny_http_verif (use bin/check)");
    std::process::exit(2);
}

#[cfg(tiny_http_verif)]
use verif_harness::infra::{coordinate, worker_loop, Tier};
#[cfg(tiny_http_verif)]
use verif_harness::{props, report};

#[cfg(tiny_http_verif)]
fn main() {
    verif_harness::infra::install_discard_logger();
    let args: Vec<String> = std::env::args().skip(1).collect();
    if args.is_empty() {
        eprintln!("usage: check <property|list> [--tier quick|thorough] [--replay file]");
        std::process::exit(2);
    }
    let id = args[0].clone();
    if id == "conformance" {
        std::process::exit(verif_harness::conformance::run());
    }
    if id == "conformance-pauses" {
        std::process::exit(verif_harness::conformance::run_pauses());
    }
    if id == "list" {
        for c in props::all() {
            println!("{} {}", c.id(), c.level());
        }
        return;
    }
    let mut tier = match std::env::var("VERIF_TIER").ok().as_deref() {
        Some("thorough") => Tier::Thorough,
        _ => Tier::Quick,
    };
    let mut worker: Option<usize> = None;
    let mut replay: Option<String> = None;
    let mut i = 1;
    while i < args.len() {
        match args[i].as_str() {
            "--tier" => {
                i += 1;
                tier = if args.get(i).map(|s| s.as_str()) == Some("thorough") {
                    Tier::Thorough
                } else {
                    Tier::Quick
                };
            }
            "--worker" => {
                i += 1;
                worker = args.get(i).and_then(|s| s.parse().ok());
            }
            "--run-item" => {
                i += 1;
                let idx: u64 = args.get(i).and_then(|s| s.parse().ok()).unwrap_or(0);
                let check = props::all().into_iter().find(|c| c.id() == id).expect("property");
                if let Some(b) = check.rlimit_as() {
                    verif_harness::infra::set_rlimit_as(b);
                }
                let mut acc = verif_harness::infra::Acc::default();
                check.run_item(idx, tier, &mut acc);
                println!("{}", acc.to_json());
                return;
            }
            "--replay" => {
                i += 1;
                replay = args.get(i).cloned();
            }
            x => {
                eprintln!("unknown argument {}", x);
                std::process::exit(2);
            }
        }
        i += 1;
    }
    let check = match props::all().into_iter().find(|c| c.id() == id) {
        Some(c) => c,
        None => {
            eprintln!("unknown property {}", id);
            std::process::exit(2);
        }
    };
    if let Some(w) = worker {
        worker_loop(check.as_ref(), tier, w);
        return;
    }
    if let Some(p) = replay {
        std::process::exit(report::replay_file(check.as_ref(), &p));
    }
    let out = coordinate(check.as_ref(), tier);
    std::process::exit(report::finish(check.as_ref(), tier, out));
}
