//! Verification harness for tiny-http.  Built twice: with `--cfg tiny_http_verif` (hooks
//! on: the `check` binary, everything below) and without (the `realsock` conformance
//! binary, which only uses the portable modules).

pub mod gen;
pub mod httpparse;
pub mod infra;
pub mod refmodel;
pub mod scenario;

#[cfg(not(tiny_http_verif))]
pub mod plainthread;

#[cfg(tiny_http_verif)]
pub mod alloc;
#[cfg(tiny_http_verif)]
pub mod conformance;
#[cfg(tiny_http_verif)]
pub mod corpus;
#[cfg(tiny_http_verif)]
pub mod judge;
#[cfg(tiny_http_verif)]
pub mod l1;
#[cfg(tiny_http_verif)]
pub mod l2;
#[cfg(tiny_http_verif)]
pub mod props;
#[cfg(tiny_http_verif)]
pub mod report;
#[cfg(tiny_http_verif)]
pub mod runner;

#[cfg(tiny_http_verif)]
#[global_allocator]
static GLOBAL: alloc::Counting = alloc::Counting;
