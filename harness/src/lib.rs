pub mod httpparse;
pub mod infra;
pub mod props;
pub mod judge;
pub mod l1;
pub mod refmodel;
pub mod report;
pub mod runner;
