pub mod alloc;
pub mod corpus;
pub mod gen;
pub mod httpparse;
pub mod infra;
pub mod props;
pub mod judge;
pub mod l1;
pub mod l2;
pub mod refmodel;
pub mod report;
pub mod runner;

#[global_allocator]
static GLOBAL: alloc::Counting = alloc::Counting;
