pub mod httpparse;
pub mod infra;
pub mod props;
pub mod report;
