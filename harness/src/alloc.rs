//! Counting global allocator (whole process): largest single request and peak live heap.
//! Used by C14 to show that memory is bounded by the bytes received, not by lengths the
//! client merely declares.

use std::alloc::{GlobalAlloc, Layout, System};
use std::sync::atomic::{AtomicUsize, Ordering};

pub struct Counting;

static LIVE: AtomicUsize = AtomicUsize::new(0);
static PEAK: AtomicUsize = AtomicUsize::new(0);
static LARGEST: AtomicUsize = AtomicUsize::new(0);

static TRACE_FROM: AtomicUsize = AtomicUsize::new(usize::MAX);
thread_local! {
    static IN_TRACE: std::cell::Cell<bool> = std::cell::Cell::new(false);
}

/// Debugging aid: print a backtrace for every allocation of at least `bytes` bytes.
pub fn trace_from(bytes: usize) {
    TRACE_FROM.store(bytes, Ordering::Relaxed);
}

fn maybe_trace(size: usize) {
    if size >= TRACE_FROM.load(Ordering::Relaxed) {
        let _ = IN_TRACE.try_with(|f| {
            if !f.get() {
                f.set(true);
                eprintln!("ALLOCATION of {} bytes at\n{}", size, std::backtrace::Backtrace::force_capture());
                f.set(false);
            }
        });
    }
}

#[inline]
fn on_alloc(size: usize) {
    maybe_trace(size);
    let live = LIVE.fetch_add(size, Ordering::Relaxed) + size;
    PEAK.fetch_max(live, Ordering::Relaxed);
    LARGEST.fetch_max(size, Ordering::Relaxed);
}

#[allow(unsafe_code)]
unsafe impl GlobalAlloc for Counting {
    unsafe fn alloc(&self, l: Layout) -> *mut u8 {
        on_alloc(l.size());
        let p = System.alloc(l);
        if p.is_null() {
            LIVE.fetch_sub(l.size(), Ordering::Relaxed);
        }
        p
    }
    unsafe fn alloc_zeroed(&self, l: Layout) -> *mut u8 {
        on_alloc(l.size());
        let p = System.alloc_zeroed(l);
        if p.is_null() {
            LIVE.fetch_sub(l.size(), Ordering::Relaxed);
        }
        p
    }
    unsafe fn dealloc(&self, p: *mut u8, l: Layout) {
        LIVE.fetch_sub(l.size(), Ordering::Relaxed);
        System.dealloc(p, l)
    }
    unsafe fn realloc(&self, p: *mut u8, l: Layout, new: usize) -> *mut u8 {
        if new > l.size() {
            on_alloc(new - l.size());
            // a growing buffer asks for `new` bytes in one piece
            LARGEST.fetch_max(new, Ordering::Relaxed);
            maybe_trace(new);
        } else {
            LIVE.fetch_sub(l.size() - new, Ordering::Relaxed);
        }
        System.realloc(p, l, new)
    }
}

/// Starts a measurement window: returns the live heap now and resets peak / largest.
pub fn reset() -> usize {
    let live = LIVE.load(Ordering::Relaxed);
    PEAK.store(live, Ordering::Relaxed);
    LARGEST.store(0, Ordering::Relaxed);
    live
}

/// (peak live heap above `base`, largest single allocation) since `reset`.
pub fn measure(base: usize) -> (usize, usize) {
    (
        PEAK.load(Ordering::Relaxed).saturating_sub(base),
        LARGEST.load(Ordering::Relaxed),
    )
}
