//! Conformance of the in-memory network with kernel sockets (DESIGN 6.5): the same
//! conversations are replayed by the hooks-off `realsock` binary over real TCP / UNIX
//! sockets and the canonical observations are compared.

use crate::corpus::*;
use crate::gen::*;
use crate::runner::*;
use serde_json::{json, Value};
use tiny_http::verif_rt::core::RunCfg;

/// (name, scenario)
pub fn scenarios() -> Vec<(String, Scenario)> {
    let mut v = Vec::new();
    for c in corpus(true) {
        // behaviours that depend on kernel timing / RST-on-close are excluded (DESIGN 12)
        if ["close-then-more", "bad-request-line-2", "bad-non-ascii", "cl-invalid", "ws-before-colon", "ws-before-name", "expect-unsupported", "bad-header-no-colon", "bad-version-token"].contains(&c.name.as_str()) {
            // the server closes while client bytes are unread: the kernel answers with RST and
            // the client may lose the tail of the last response; compared without tail below
            let mut bytes = c.bytes.clone();
            // keep the conversation but stop the client's stream right after the offending head
            if let Some(p) = bytes.windows(4).rposition(|w| w == b"\r\n\r\n") {
                bytes.truncate(p + 4);
            }
            let c2 = Conv { bytes, ..c.clone() };
            v.push((format!("{}-truncated", c.name), scenario_for(&c2, vec![c2.bytes.clone()])));
            continue;
        }
        v.push((c.name.clone(), scenario_for(&c, vec![c.bytes.clone()])));
        // the same conversation split in the middle
        if c.bytes.len() > 10 {
            v.push((format!("{}-split", c.name), scenario_for(&c, split_at(&c.bytes, &[c.bytes.len() / 2]))));
        }
    }
    // UNIX-like peer
    let mut sc = Scenario::one_conn(vec![[get("/u1"), post_cl("/u2", b"unix")].concat()], AppProgram::simple());
    sc.conns[0].unnamed_peer = true;
    v.push(("unix-pipeline".into(), sc));
    // half-close after a request, orderly close
    let mut sc = Scenario::one_conn(vec![get("/hc")], AppProgram::simple());
    sc.script.push((0, Step::CloseWrite));
    sc.script.push((0, Step::Settle));
    v.push(("half-close".into(), sc));
    // 100-continue with a client that withholds the body
    let mut sc = Scenario::one_conn(vec![], AppProgram::uniform(ReqPlan { read: ReadPlan::all(64), finish: Finish::Respond(RespSpec::ok(3)) }));
    sc.script = vec![
        (0, Step::Send(b"POST /c HTTP/1.1\r\nHost: t\r\nExpect: 100-continue\r\nContent-Length: 5\r\n\r\n".to_vec())),
        (0, Step::SendIfContinue(b"hello".to_vec())),
        (0, Step::Settle),
    ];
    v.push(("continue-withheld".into(), sc));
    // large response, chunked response on HTTP/1.0
    let sc = Scenario::one_conn(vec![b"GET /old HTTP/1.0\r\n\r\n".to_vec()], AppProgram::uniform(ReqPlan { read: ReadPlan::None, finish: Finish::Respond(RespSpec { status: 200, body_len: 5000, declared: false, threshold: None, headers: 0 }) }));
    v.push(("http10-unknown-length".into(), sc));
    let sc = Scenario::one_conn(vec![get("/big")], AppProgram::uniform(ReqPlan { read: ReadPlan::None, finish: Finish::Respond(RespSpec::ok(70000)) }));
    v.push(("big-response".into(), sc));
    v
}

pub fn run() -> i32 {
    let list = scenarios();
    let mem: Vec<Value> = list
        .iter()
        .map(|(name, sc)| {
            let (obs, _res) = run_scenario(sc, &RunCfg::default());
            json!({"name": name, "scenario": scenario_json(sc), "canon": canon_conformance(&obs)})
        })
        .collect();
    let dir = crate::infra::verif_dir();
    let file = dir.join("target").join("conformance-scenarios.json");
    std::fs::write(&file, serde_json::to_string(&mem).unwrap()).expect("write scenarios");
    let exe = dir.join("target").join("plain").join("release").join("realsock");
    let out = match std::process::Command::new(&exe).arg(&file).output() {
        Ok(o) => o,
        Err(e) => {
            println!("MACHINERY-ERROR: cannot run {}: {}", exe.display(), e);
            return 2;
        }
    };
    if !out.status.success() {
        println!("MACHINERY-ERROR: realsock failed: {}", String::from_utf8_lossy(&out.stderr));
        return 2;
    }
    let real: Value = match serde_json::from_slice(&out.stdout) {
        Ok(v) => v,
        Err(e) => {
            println!("MACHINERY-ERROR: realsock output: {}", e);
            return 2;
        }
    };
    let mut mismatches = Vec::new();
    let mut same = 0;
    // A conversation that differs is replayed again, alone and with a five times longer wait
    // for the server to become quiet (the real-socket runner has no true quiescence: on a loaded
    // machine 80 ms may be too short).  A genuine disagreement persists.
    let mut retried_ok = 0;
    let retry_one = |i: usize| -> Option<Value> {
        let f = dir.join("target").join(format!("conformance-retry-{}.json", i));
        std::fs::write(&f, serde_json::to_string(&vec![mem[i].clone()]).ok()?).ok()?;
        for wait in ["400", "1500"] {
            let out = std::process::Command::new(&exe).arg(&f).env("VERIF_SETTLE_MS", wait).env("VERIF_SCENARIOS_ONLY", "1").output().ok()?;
            let v: Value = serde_json::from_slice(&out.stdout).ok()?;
            if v["scenarios"][0]["canon"] == mem[i]["canon"] {
                let _ = std::fs::remove_file(&f);
                return Some(v["scenarios"][0].clone());
            }
        }
        let _ = std::fs::remove_file(&f);
        None
    };
    for (i, m) in mem.iter().enumerate() {
        let r = &real["scenarios"][i];
        if r["canon"] == m["canon"] {
            same += 1;
        } else if retry_one(i).is_some() {
            same += 1;
            retried_ok += 1;
        } else {
            mismatches.push(json!({"name": m["name"], "in_memory": m["canon"], "kernel_sockets": r["canon"]}));
        }
        if r["extra"]["peer_address_is_clients"].as_bool() == Some(false) {
            mismatches.push(json!({"name": m["name"], "clause": "peer address reported is not the client's socket address / not None on UNIX"}));
        }
        if r["extra"]["unix_path_removed_after_drop"].as_bool() == Some(false) {
            mismatches.push(json!({"name": m["name"], "clause": "UNIX socket path not removed after drop"}));
        }
    }
    let ro = &real["real_only"];
    let mut real_fail = Vec::new();
    let chk = |ok: bool, what: &str, real_fail: &mut Vec<String>| {
        if !ok {
            real_fail.push(what.to_string());
        }
    };
    chk(ro["tcp_refused_after_drop_ms"].as_u64().map_or(false, |ms| ms <= 1000), "TCP connect refused within 1 s after drop", &mut real_fail);
    let prow = ro["tcp_peer_address_by_family"].as_array().cloned().unwrap_or_default();
    chk(prow.iter().filter(|r| r["connected"].as_bool() == Some(true)).count() >= 4, "peer addresses could be compared on at least the IPv4 listeners", &mut real_fail);
    for r in &prow {
        if r["connected"].as_bool() == Some(true) {
            chk(
                r["equal_after_unmapping"].as_bool() == Some(true),
                &format!("peer address: listener {} reached through {}: the application is told {} for the client socket {}", r["bind"], r["connect_to"], r["reported_to_application"], r["client_socket_address"]),
                &mut real_fail,
            );
        }
    }
    let crow = ro["drop_by_construction"].as_array().cloned().unwrap_or_default();
    chk(crow.iter().filter(|r| r["constructed"].as_bool() == Some(true)).count() >= 5, "servers could be constructed in the listed ways (http_unix, Server::new, from_listener; UNIX and TCP)", &mut real_fail);
    for r in &crow {
        if r["constructed"].as_bool() == Some(true) {
            let how = r["constructed_by"].as_str().unwrap_or("");
            if r.get("path_removed_after_ms").is_some() {
                chk(r["served_with_peer_address_none"].as_bool() == Some(true), &format!("UNIX server constructed by {}: a request is served and its peer address is None", how), &mut real_fail);
                chk(r["path_removed_after_ms"].as_u64().is_some(), &format!("UNIX server constructed by {}: the socket path is removed within 3 s after the drop", how), &mut real_fail);
            } else {
                chk(r["served"].as_bool() == Some(true), &format!("TCP server constructed by {}: a request is served", how), &mut real_fail);
                chk(r["listening_socket_gone_after_ms"].as_u64().is_some(), &format!("TCP server constructed by {}: the listening socket is gone within 3 s after the drop", how), &mut real_fail);
            }
            chk(r["connect_refused_after_drop"].as_bool() == Some(true), &format!("server constructed by {}: a connection attempt after the drop is refused", how), &mut real_fail);
        }
    }
    let frows = ro["delivered_after_full_close"].as_array().cloned().unwrap_or_default();
    chk(frows.len() >= 24, "the table 'delivered after a full close' was produced (6 pipelines x application reads bodies or not x TCP / UNIX)", &mut real_fail);
    for r in &frows {
        chk(
            r["delivered"] == r["sent"],
            &format!("client sends the pipeline {} over {} and closes its socket (full close) before anything is answered, application {}: requests delivered {} of {} sent", r["pipeline"], r["socket"], if r["application_reads_bodies"].as_bool() == Some(true) { "reads every body" } else { "answers without reading" }, r["delivered"], r["sent"]),
            &mut real_fail,
        );
    }
    let rows = ro["tcp_drop_by_bind_address"].as_array().cloned().unwrap_or_default();
    chk(rows.iter().filter(|r| r["bound"].as_bool() == Some(true)).count() >= 8, "the server could be bound on the IPv4 bind-address classes (127.0.0.1, 127.0.0.2, 127.1.2.3, 0.0.0.0)", &mut real_fail);
    for r in &rows {
        if r["bound"].as_bool() == Some(true) {
            chk(r["served_ok"].as_bool() == Some(true), &format!("server bound to {} serves a request before the drop", r["bind"]), &mut real_fail);
            chk(
                r["first_attempt_500ms_after_drop_refused"].as_bool() == Some(true),
                &format!("TCP server bound to {}: first connection attempt (to {}) after the drop: the listening socket is gone within 3 s (watched passively) and the first attempt is refused", r["bind"], r["connect_to"]),
                &mut real_fail,
            );
        }
    }
    chk(ro["unix_refused_and_path_removed_after_drop_ms"].as_u64().map_or(false, |ms| ms <= 1000), "UNIX connect refused and path removed within 1 s after drop", &mut real_fail);
    chk(ro["recv_timeout_200ms_returned_none_after_ms"][0].as_bool() == Some(true)
        && ro["recv_timeout_200ms_returned_none_after_ms"][1].as_u64().map_or(false, |ms| (199..=450).contains(&ms)), "recv_timeout(200 ms) returns empty within [~200 ms, 2 x 200 ms + latency]", &mut real_fail);
    chk(ro["try_recv_empty_after_us"][1].as_u64().map_or(false, |us| us < 50_000), "try_recv returns at once", &mut real_fail);
    chk(ro["recv_after_unblock_err_after_us"][0].as_bool() == Some(true), "recv after unblock returns an error", &mut real_fail);
    chk(ro["after_200_reset_clients_server_alive"].as_bool() == Some(true), "server alive after 200 clients that reset at once", &mut real_fail);
    chk(ro["burst32_answered"].as_u64() == Some(32), "32 simultaneous connections all answered", &mut real_fail);
    let th = &ro["threads_base_withserver_during_after6s"];
    chk(th[3].as_u64().unwrap_or(999) <= th[1].as_u64().unwrap_or(0), "threads back to (at most) the baseline 6.5 s after a burst of 32", &mut real_fail);
    chk(ro["held12_answered"].as_u64() == Some(12), "12 connections that then stay open for 6 s are all answered", &mut real_fail);
    chk(ro["threads_back_after_held12_closed_ms"].as_u64().is_some(), &format!("threads back to the level they had before (server idle for 6.5 s after the burst of 32) within 40 s after 12 connections, open for 6 s, were closed (during: {} threads)", ro["threads_during_held12"]), &mut real_fail);
    let report = json!({"scenarios_compared": mem.len(), "identical": same, "identical_only_after_a_replay_with_longer_waits": retried_ok, "mismatches": mismatches, "real_only": ro, "real_only_failures": real_fail});
    let _ = std::fs::create_dir_all(dir.join("evidence"));
    std::fs::write(dir.join("evidence").join("conformance.json"), serde_json::to_string_pretty(&report).unwrap()).expect("write");
    println!("conformance: {} conversations replayed over kernel sockets, {} identical to the in-memory network, {} mismatches, {} real-only clause failures", mem.len(), same, report["mismatches"].as_array().unwrap().len(), report["real_only_failures"].as_array().unwrap().len());
    for m in report["mismatches"].as_array().unwrap() {
        println!("MISMATCH {}", m);
    }
    for m in report["real_only_failures"].as_array().unwrap() {
        let what = m.as_str().unwrap_or("");
        let prop = if what.contains("peer address:") { "C02" } else if what.contains("full close") { "C15" } else if what.contains("recv") { "C17" } else if what.contains("reset at once") { "C15" } else { "C20" };
        println!("VIOLATION property={} replay={}", prop, dir.join("evidence").join("conformance.json").display());
        println!("  on kernel sockets: {} does not hold", what);
    }
    for m in report["mismatches"].as_array().unwrap() {
        if m.get("clause").is_some() {
            println!("VIOLATION property={} replay={}", if m["clause"].as_str().unwrap_or("").contains("UNIX socket path") { "C20" } else { "C02" }, dir.join("evidence").join("conformance.json").display());
        }
    }
    if !report["real_only_failures"].as_array().unwrap().is_empty() || report["mismatches"].as_array().unwrap().iter().any(|m| m.get("clause").is_some()) {
        1
    } else if !report["mismatches"].as_array().unwrap().is_empty() {
        // the model of the environment disagrees with the kernel: nothing based on it is a verdict
        println!("MACHINERY-ERROR: the in-memory network does not answer like kernel sockets on the conversations above");
        2
    } else {
        0
    }
}


/// C13 over kernel sockets: the same bytes with a 50 ms and with a long pause between two
/// segments must give the same requests to the application and the same answers.
pub fn run_pauses() -> i32 {
    let dir = crate::infra::verif_dir();
    let secs: u64 = std::env::var("VERIF_PAUSE_SECS").ok().and_then(|s| s.parse().ok()).unwrap_or(65);
    let exe = dir.join("target").join("plain").join("release").join("realsock");
    let out = match std::process::Command::new(&exe).arg("--pauses").arg(secs.to_string()).output() {
        Ok(o) => o,
        Err(e) => {
            println!("MACHINERY-ERROR: cannot run {}: {}", exe.display(), e);
            return 2;
        }
    };
    let v: Value = match serde_json::from_slice(&out.stdout) {
        Ok(v) if out.status.success() => v,
        _ => {
            println!("MACHINERY-ERROR: realsock --pauses failed: {}", String::from_utf8_lossy(&out.stderr));
            return 2;
        }
    };
    let rows = v["pause_rows"].as_array().cloned().unwrap_or_default();
    let mut bad = Vec::new();
    let mut compared = 0;
    for r in rows.iter().filter(|r| r["pause_ms"].as_u64().unwrap_or(0) > 1000) {
        let base = rows.iter().find(|b| b["transport"] == r["transport"] && b["case"] == r["case"] && b["pause_ms"].as_u64().unwrap_or(0) <= 1000);
        match base {
            Some(b) => {
                compared += 1;
                if b["delivered"] != r["delivered"] || b["statuses"] != r["statuses"] || b["end_of_stream_seen"] != r["end_of_stream_seen"] {
                    bad.push(json!({"paused": r, "unpaused": b}));
                }
            }
            None => bad.push(json!({"paused": r, "unpaused": null})),
        }
    }
    let report = json!({"pause_seconds": secs, "pairs_compared": compared, "differences": bad, "rows": rows});
    let _ = std::fs::create_dir_all(dir.join("evidence"));
    let file = dir.join("evidence").join("conformance-pauses.json");
    std::fs::write(&file, serde_json::to_string_pretty(&report).unwrap()).expect("write");
    println!("pauses: {} conversations over kernel sockets (TCP and UNIX) replayed with a {} s silence between two segments, {} differ from the unpaused run", compared, secs, report["differences"].as_array().unwrap().len());
    if compared < 10 {
        println!("MACHINERY-ERROR: only {} of 10 paused conversations could be compared", compared);
        return 2;
    }
    for d in report["differences"].as_array().unwrap() {
        println!("VIOLATION property=C13 replay={}", file.display());
        println!("  key=pause:{}:{} : with a {} s pause {} / {:?}; without {} / {:?}", d["paused"]["transport"].as_str().unwrap_or(""), d["paused"]["case"].as_str().unwrap_or(""), secs,
            d["paused"]["delivered"], d["paused"]["statuses"].to_string(), d["unpaused"]["delivered"], d["unpaused"]["statuses"].to_string());
    }
    if report["differences"].as_array().unwrap().is_empty() { 0 } else { 1 }
}
