//! Turns a coordinator outcome into the verdict lines, replay files and the evidence file.

use crate::infra::*;
use serde_json::{json, Value};

pub fn finish(check: &dyn Check, tier: Tier, out: Outcome) -> i32 {
    let id = check.id();
    let dir = verif_dir();
    let known = load_known_findings();
    let seed: i64 = std::env::var("VERIF_SEED")
        .ok()
        .and_then(|s| s.parse().ok())
        .unwrap_or(0);
    let acc = &out.acc;
    // group violations by key
    let mut by_key: std::collections::BTreeMap<String, Vec<&Violation>> = Default::default();
    for v in &acc.violations {
        by_key.entry(v.key.clone()).or_default().push(v);
    }
    let mut new_violations = 0;
    let mut known_hit = Vec::new();
    let _ = std::fs::create_dir_all(dir.join("replays"));
    for (key, vs) in &by_key {
        let count = acc
            .counters
            .get(&format!("violations[{}]", key))
            .copied()
            .unwrap_or(vs.len() as u64);
        if let Some(f) = known.iter().find(|f| f.property == id && f.key == *key) {
            println!(
                "KNOWN-FINDING: property={} key={} {} ({} cases in this run; e.g. {})",
                id, key, f.text, count, vs[0].desc
            );
            known_hit.push(key.clone());
        } else {
            new_violations += 1;
            let path = dir
                .join("replays")
                .join(format!("{}-{}-{}.json", id, sanitize(key), tier.name()));
            let body = json!({
                "property": id, "key": key, "tier": tier.name(), "cases_in_run": count,
                "explanation": vs[0].desc, "replay": vs[0].replay,
                "more": vs.iter().skip(1).map(|v| json!({"explanation": v.desc, "replay": v.replay})).collect::<Vec<_>>(),
            });
            let _ = std::fs::write(&path, serde_json::to_string_pretty(&body).unwrap());
            println!("VIOLATION property={} replay={}", id, path.display());
            println!("  key={} cases={} : {}", key, count, vs[0].desc);
        }
    }
    for e in &acc.machinery_errors {
        println!("MACHINERY-ERROR: {}", e);
    }
    let mut vacuity: Vec<String> = Vec::new();
    if check.level() == "model_checking" && acc.execs > 200 {
        // a schedule exploration in which no two threads ever touched the same object, or
        // which produced a single schedule, has explored nothing
        if acc.conflicting_execs == 0 {
            vacuity.push("no execution had two threads touching a common object".to_string());
        }
        if acc.distinct_traces < 2 {
            vacuity.push("all executions followed one and the same schedule".to_string());
        }
        if acc.outcomes.len() < 2 {
            vacuity.push("all executions produced one and the same observation".to_string());
        }
    }
    for v in &vacuity {
        println!("MACHINERY-ERROR: vacuous exploration: {}", v);
    }
    let exhaustive = !acc.capped && out.items_done == out.items_total && acc.machinery_errors.is_empty();
    let level = check.level();
    let mut coverage = json!({
        "evaluations": acc.evals,
        "distinct_nontrivial": acc.nontrivial,
        "rule": check.rule(tier),
        "samples": acc.samples,
        "exhaustive": exhaustive,
        "work_items_total": out.items_total,
        "work_items_done": out.items_done,
        "distinct_observed_outcomes": acc.outcomes.len(),
        "workers": out.workers,
        "counters": acc.counters,
        "notes": acc.notes.iter().collect::<Vec<_>>(),
        "known_findings_hit": known_hit,
        "caps_hit": acc.capped,
    });
    if level == "model_checking" {
        coverage["states"] = json!(acc.decisions.max(acc.execs));
        coverage["transitions"] = json!(acc.points);
        coverage["traces_validated_against_impl"] = json!(acc.execs);
        coverage["executions"] = json!(acc.execs);
        coverage["distinct_schedules"] = json!(acc.distinct_traces);
        coverage["executions_with_cross_thread_conflicts"] = json!(acc.conflicting_execs);
        coverage["max_decision_depth"] = json!(acc.max_depth);
        coverage["max_deviations_used"] = json!(acc.max_spent);
        coverage["timeouts_fired"] = json!(acc.timer_fires);
        coverage["explanation"] = json!("states = scheduler decision points visited; transitions = visible operations executed; every trace is an execution of the real implementation under the controlled scheduler, so traces_validated_against_impl = executions");
    }
    // the binding of the network model to kernel sockets (bin/check conformance), if it ran
    if let Ok(txt) = std::fs::read_to_string(dir.join("evidence").join("conformance.json")) {
        if let Ok(c) = serde_json::from_str::<Value>(&txt) {
            coverage["conformance_with_kernel_sockets"] = json!({
                "conversations_replayed": c["scenarios_compared"], "identical_observations": c["identical"],
                "mismatches": c["mismatches"].as_array().map(|a| a.len()), "real_only_clauses": c["real_only"],
                "real_only_failures": c["real_only_failures"],
                "note": "fixed replay list (not an exploration): binds the in-memory network model and the wall-clock / peer-address / socket-path clauses to Linux TCP and UNIX sockets",
            });
        }
    }
    if let Value::Object(extra) = check.coverage_extra(tier, acc) {
        for (k, v) in extra {
            coverage[k] = v;
        }
    }
    let mut assumptions: Vec<String> = STD_ASSUMPTIONS.iter().map(|s| s.to_string()).collect();
    assumptions.extend(check.assumptions());
    let ev = json!({
        "property_id": id,
        "tier": tier.name(),
        "seed": seed,
        "level": level,
        "coverage": coverage,
        "assumptions": assumptions,
        "wall_s": (out.wall_s * 1000.0).round() / 1000.0,
        "violations": new_violations,
    });
    let _ = std::fs::create_dir_all(dir.join("evidence"));
    let evp = dir.join("evidence").join(format!("{}.json", id));
    std::fs::write(&evp, serde_json::to_string_pretty(&ev).unwrap()).expect("write evidence");
    println!(
        "{} {}: {} evaluations ({} non-trivial, {} distinct outcomes), {} executions, {} items of {}, {:.1}s, exhaustive={}",
        id, tier.name(), acc.evals, acc.nontrivial, acc.outcomes.len(), acc.execs, out.items_done, out.items_total, out.wall_s, exhaustive
    );
    if !acc.machinery_errors.is_empty() || !vacuity.is_empty() {
        return 2;
    }
    if new_violations > 0 {
        return 1;
    }
    if acc.evals == 0 {
        println!("MACHINERY-ERROR: nothing was evaluated");
        return 2;
    }
    0
}

fn sanitize(s: &str) -> String {
    s.chars()
        .map(|c| if c.is_ascii_alphanumeric() || c == '-' { c } else { '_' })
        .collect()
}

/// A crash is replayed in a subprocess (this process would die with it): the recorded
/// item is run alone; if the subprocess dies again the violation stands.
fn replay_crash(check: &dyn Check, replay: &Value, acc: &mut Acc) {
    let item = replay["item"].as_u64().unwrap_or(0);
    let tier = if replay["tier"].as_str() == Some("quick") { Tier::Quick } else { Tier::Thorough };
    let exe = std::env::current_exe().unwrap();
    match std::process::Command::new(exe).args([check.id(), "--tier", tier.name(), "--run-item", &item.to_string()]).output() {
        Ok(o) if o.status.success() => {
            acc.notes.insert(format!("item {} runs to completion now", item));
        }
        Ok(o) => acc.violation(
            &format!("process-abort:{}", replay["class"].as_str().unwrap_or("item")),
            format!("the process died ({:?}): {}", o.status, String::from_utf8_lossy(&o.stderr).lines().last().unwrap_or("")),
            replay.clone(),
        ),
        Err(e) => acc.machinery_errors.push(e.to_string()),
    }
}

pub fn replay_file(check: &dyn Check, path: &str) -> i32 {
    let txt = match std::fs::read_to_string(path) {
        Ok(t) => t,
        Err(e) => {
            println!("cannot read {}: {}", path, e);
            return 2;
        }
    };
    let v: Value = match serde_json::from_str(&txt) {
        Ok(v) => v,
        Err(e) => {
            println!("bad replay file: {}", e);
            return 2;
        }
    };
    let rep = if v.get("replay").is_some() { v["replay"].clone() } else { v.clone() };
    // run twice: identical verdicts are required before a failure is believed
    let run = |acc: &mut Acc| {
        if rep["kind"].as_str() == Some("crash") {
            replay_crash(check, &rep, acc)
        } else {
            check.replay(&rep, acc)
        }
    };
    let mut a1 = Acc::default();
    run(&mut a1);
    let mut a2 = Acc::default();
    run(&mut a2);
    let k1: Vec<&String> = a1.violations.iter().map(|v| &v.key).collect();
    let k2: Vec<&String> = a2.violations.iter().map(|v| &v.key).collect();
    if k1 != k2 {
        println!("MACHINERY-ERROR: replay is not deterministic: {:?} vs {:?}", k1, k2);
        return 2;
    }
    for n in &a1.notes {
        println!("{}", n);
    }
    if a1.violations.is_empty() {
        println!("replay: property {} holds on this case", check.id());
        0
    } else {
        for v in &a1.violations {
            println!("VIOLATION property={} replay={}", check.id(), path);
            println!("  key={} : {}", v.key, v.desc);
        }
        1
    }
}
