//! Shared driver for the schedule-exploring (L2) checks.

use crate::infra::*;
use serde_json::{json, Value};
use std::sync::{Arc, Mutex};
use std::time::{Duration, Instant};
use tiny_http::verif_rt::core::{RunCfg, RunResult};
use tiny_http::verif_rt::ctl;
use tiny_http::verif_rt::explore::{explore, ExploreCfg, ExploreStats, Mode, Node};

/// Step cap of the runs started from here (0 = the engine's default of 2 000 000): the
/// magnitude families with tens of thousands of requests need more steps than that and set
/// it for the duration of their item (a worker process runs one item at a time).
pub static STEP_CAP: std::sync::atomic::AtomicU64 = std::sync::atomic::AtomicU64::new(0);

pub fn run_cfg_default() -> RunCfg {
    let mut rc = RunCfg::default();
    let c = STEP_CAP.load(std::sync::atomic::Ordering::Relaxed);
    if c > 0 {
        rc.step_cap = c;
    }
    rc
}

#[derive(Clone, Debug)]
pub struct L2Cfg {
    pub mode: Mode,
    /// bounds are iterated 0..=bound; None = unbounded in one pass
    pub bound: Option<u32>,
    pub max_execs: u64,
    pub wall: Duration,
    /// spurious condition-variable wake-ups are offered (as 1-cost deviations) in the
    /// passes with a bound up to this value; None = never.  Bodies that want them call
    /// `ctl::spurious(l2::spurious_now())`.
    pub spurious_upto: Option<u32>,
}

static SPURIOUS_NOW: std::sync::atomic::AtomicBool = std::sync::atomic::AtomicBool::new(false);

/// Whether the pass that is being explored (or the schedule being replayed) offers
/// spurious wake-ups.  Process-global: a worker process explores one scenario at a time.
pub fn spurious_now() -> bool {
    SPURIOUS_NOW.load(std::sync::atomic::Ordering::SeqCst)
}

fn set_spurious(on: bool) {
    SPURIOUS_NOW.store(on, std::sync::atomic::Ordering::SeqCst);
}

/// more threads than this parked for ever by one scenario's executions: stop exploring it
const LEAK_LIMIT: u64 = 1200;

pub fn mode_name(m: Mode) -> &'static str {
    match m {
        Mode::Chess => "chess",
        Mode::Strict => "strict",
    }
}

pub fn schedule_json(res: &RunResult) -> Value {
    json!(res.decisions.iter().map(|d| json!([d.chosen, d.n])).collect::<Vec<_>>())
}

pub fn schedule_from_json(v: &Value) -> Vec<(u32, u32)> {
    v.as_array()
        .map(|a| {
            a.iter()
                .map(|e| (e[0].as_u64().unwrap_or(0) as u32, e[1].as_u64().unwrap_or(0) as u32))
                .collect()
        })
        .unwrap_or_default()
}

/// Explores all schedules of `body` within the configured bound; `judge` looks at every
/// execution.  Stops the scenario at its first violation (bounds are iterated, so that
/// one has the fewest deviations).  Returns true when a violation was found.
pub fn explore_scenario<O, B, J>(
    cfg: &L2Cfg,
    acc: &mut Acc,
    scenario: &Value,
    body: B,
    judge: J,
) -> bool
where
    O: Default + Clone + Send + std::fmt::Debug + 'static,
    B: Fn(Arc<Mutex<O>>) + Send + Sync + Clone + 'static,
    J: Fn(&O, &RunResult) -> Vec<(String, String)>,
{
    let t0 = Instant::now();
    let mut outcome_set: std::collections::BTreeSet<u64> = Default::default();
    let mut leaked_here: u64 = 0;
    let bounds: Vec<Option<u32>> = match cfg.bound {
        None => vec![None],
        Some(b) => (0..=b).map(Some).collect(),
    };
    let mut found = false;
    let mut completed_bound: i64 = -1;
    let mut last_example: Option<Value> = None;
    let mut last_distinct = 0u64;
    for b in bounds {
        let spurious = match (cfg.spurious_upto, b) {
            (Some(u), Some(b)) => b <= u,
            (Some(_), None) => true,
            (None, _) => false,
        };
        set_spurious(spurious);
        let ecfg = ExploreCfg {
            mode: cfg.mode,
            bound: b,
            max_execs: cfg.max_execs,
            deadline: Some(t0 + cfg.wall),
        };
        let mut stats = ExploreStats::default();
        let mut first: Option<(Vec<(String, String)>, RunResult, O)> = None;
        let mut outcomes: Vec<u64> = Vec::new();
        let mut leak_stop = false;
        let mut example: Option<(u32, Vec<(usize, u32, u32)>, usize, String)> = None;
        explore(
            &ecfg,
            Node {
                prefix: vec![],
                spent: 0,
            },
            &mut stats,
            |node| {
                let o: Arc<Mutex<O>> = Arc::new(Mutex::new(O::default()));
                let o2 = o.clone();
                let bd = body.clone();
                let rc = RunCfg {
                    replay: node.prefix.clone(),
                    ..run_cfg_default()
                };
                let res = ctl::run(&rc, move || bd(o2));
                let ob = o.lock().unwrap().clone();
                if res.divergence.is_some() {
                    return (res, true);
                }
                leaked_here += res.leaked_threads as u64;
                if example.as_ref().map_or(true, |e| node.spent >= e.0) {
                    // an execution with the most deviations so far: where it left the default schedule
                    let nondefault: Vec<(usize, u32, u32)> = res
                        .decisions
                        .iter()
                        .enumerate()
                        .filter(|(_, d)| d.chosen != 0)
                        .map(|(i, d)| (i, d.chosen, d.n))
                        .collect();
                    example = Some((node.spent, nondefault, res.decisions.len(), format!("{:?}", res.end)));
                }
                let fails = judge(&ob, &res);
                outcomes.push(res.trace_hash);
                outcome_set.insert(hash_str(&format!("{:?}/{:?}", ob, res.end)));
                if !fails.is_empty() {
                    first = Some((fails, res.clone(), ob));
                    return (res, false);
                }
                if leaked_here > LEAK_LIMIT {
                    // executions that the oracle accepts keep leaving threads parked for ever
                    // (e.g. pool workers after shutdown): this process cannot hold more
                    leak_stop = true;
                    return (res, false);
                }
                (res, true)
            },
        );
        if let Some((spent, nd, depth, end)) = example {
            if b == cfg.bound || cfg.bound.is_none() {
                last_example = Some(json!({
                    "scenario": scenario, "mode": mode_name(cfg.mode), "bound": b, "spurious_wakeups_offered": spurious, "executions_at_this_bound": stats.execs,
                    "example_execution": {"deviations": spent, "decision_points": depth, "ended": end,
                        "non_default_choices": nd.iter().map(|(i, c, n)| json!({"at_decision": i, "alternative": c, "of": n})).collect::<Vec<_>>()},
                }));
            }
        }
        acc.execs += stats.execs;
        acc.evals += stats.execs;
        acc.decisions += stats.decisions;
        acc.points += stats.points;
        acc.max_depth = acc.max_depth.max(stats.max_depth as u64);
        acc.count("max_steps_in_one_execution (the engine ends an execution as a livelock at 2000000, magnitude families raise that)", stats.max_steps);
        acc.max_spent = acc.max_spent.max(stats.max_spent as u64);
        acc.conflicting_execs += stats.conflicting_execs;
        acc.timer_fires += stats.timer_fires;
        if stats.spurious_wakes > 0 {
            acc.count("spurious_condvar_wakeups_taken", stats.spurious_wakes);
        }
        if stats.late_wakes > 0 {
            acc.count("late_condvar_wakeups_taken", stats.late_wakes);
        }
        last_distinct = stats.distinct_traces.len() as u64;
        if b == Some(0) || b.is_none() {
            // determinism: replaying the default schedule's recorded choices must reproduce
            // exactly the same execution, otherwise nothing this engine reports can be trusted
            if let Some(h0) = outcomes.first().copied() {
                let o: Arc<Mutex<O>> = Arc::new(Mutex::new(O::default()));
                let o2 = o.clone();
                let bd = body.clone();
                let res0 = {
                    let rc = run_cfg_default();
                    ctl::run(&rc, move || bd(o2))
                };
                let o3: Arc<Mutex<O>> = Arc::new(Mutex::new(O::default()));
                let o4 = o3.clone();
                let bd2 = body.clone();
                let rc = RunCfg {
                    replay: res0.decisions.iter().map(|d| (d.chosen, d.n)).collect(),
                    ..run_cfg_default()
                };
                let res1 = ctl::run(&rc, move || bd2(o4));
                acc.leaked_threads += (res0.leaked_threads + res1.leaked_threads) as u64;
                leaked_here += (res0.leaked_threads + res1.leaked_threads) as u64;
                if res0.trace_hash != h0 || res1.trace_hash != h0 || res1.divergence.is_some() {
                    acc.machinery_errors.push(format!(
                        "replay is not deterministic for scenario {}: trace hashes {:x} / {:x} / {:x}, divergence {:?}",
                        scenario, h0, res0.trace_hash, res1.trace_hash, res1.divergence
                    ));
                }
                acc.count("default_schedules_replayed_identically", 1);
            }
        }
        if let Some((fails, res, _ob)) = first {
            found = true;
            let mut seen = std::collections::BTreeSet::new();
            for (key, desc) in fails {
                if key == "machinery" {
                    acc.machinery_errors.push(desc);
                    continue;
                }
                if seen.insert(key.clone()) {
                    acc.violation(
                        &key,
                        format!("{} [schedule with {} deviation(s), {} decision points]", desc, b.map_or("unbounded".to_string(), |x| x.to_string()), res.decisions.len()),
                        json!({"scenario": scenario, "schedule": schedule_json(&res), "mode": mode_name(cfg.mode), "bound": b, "spurious_wakeups_offered": spurious}),
                    );
                }
            }
            break;
        }
        if leak_stop {
            acc.capped = true;
            acc.count("scenarios_cut_by_thread_leak_limit", 1);
            acc.notes.insert(format!("exploration of a scenario stopped after {} executions had left {} threads blocked for ever (executions the oracle accepts); see DESIGN.md 3.4", stats.execs, leaked_here));
            break;
        }
        if stats.capped {
            acc.capped = true;
            acc.count("scenarios_cut_by_cap", 1);
            break;
        }
        completed_bound = b.map_or(i64::MAX, |x| x as i64);
    }
    acc.distinct_traces += last_distinct;
    acc.leaked_threads += leaked_here;
    if !found {
        if let Some(ex) = last_example {
            if ex["example_execution"]["deviations"].as_u64().unwrap_or(0) > 0 || acc.samples.is_empty() {
                acc.sample(ex);
            }
        }
    }
    // distinct observations of this scenario (salted with the scenario so that equal
    // observations of different scenarios stay distinct)
    let salt = hash_str(&scenario.to_string());
    for h in outcome_set {
        acc.outcomes.insert(h ^ salt);
    }
    let label = if completed_bound == i64::MAX {
        "bound_completed[unbounded]".to_string()
    } else {
        format!("bound_completed[{}]", completed_bound)
    };
    acc.count(&label, 1);
    found
}

/// Replays one recorded schedule twice (identical observations required) and judges it.
pub fn replay_schedule<O, B, J>(acc: &mut Acc, replay: &Value, body: B, judge: J)
where
    O: Default + Clone + Send + std::fmt::Debug + 'static,
    B: Fn(Arc<Mutex<O>>) + Send + Sync + Clone + 'static,
    J: Fn(&O, &RunResult) -> Vec<(String, String)>,
{
    let sched = schedule_from_json(&replay["schedule"]);
    set_spurious(replay["spurious_wakeups_offered"].as_bool().unwrap_or(false));
    let mut hashes = Vec::new();
    let mut last: Option<(O, RunResult)> = None;
    for _ in 0..2 {
        let o: Arc<Mutex<O>> = Arc::new(Mutex::new(O::default()));
        let o2 = o.clone();
        let bd = body.clone();
        let rc = RunCfg {
            replay: sched.clone(),
            trace: true,
            ..run_cfg_default()
        };
        let res = ctl::run(&rc, move || bd(o2));
        if let Some(d) = &res.divergence {
            acc.machinery_errors.push(format!("replay diverged: {}", d));
            return;
        }
        hashes.push(res.trace_hash);
        let ob = o.lock().unwrap().clone();
        last = Some((ob, res));
    }
    if hashes[0] != hashes[1] {
        acc.machinery_errors.push("the same schedule produced two different executions".into());
        return;
    }
    let (ob, res) = last.unwrap();
    acc.notes.insert(format!(
        "---- schedule trace ----\n{}\n---- observation ----\n{:#?}\n---- end: {:?}; blocked: {:?}",
        res.trace.join("\n"),
        ob,
        res.end,
        res.blocked
    ));
    for (key, desc) in judge(&ob, &res) {
        acc.violation(&key, desc, replay.clone());
    }
}

// ------------------------------------------------------------------------- runner scenarios

use crate::judge::{judge_conn, Failure, JudgeOpts};
use crate::runner::{scenario_body, scenario_from_json, scenario_json, Obs, Scenario};

/// Explores a runner scenario (real server, scripted client) for all schedules within the
/// bound, judging every execution against the reference model.
pub fn explore_runner_scenario(
    cfg: &L2Cfg,
    acc: &mut Acc,
    sc: &Scenario,
    class: &str,
    extra: &(dyn Fn(&Scenario, &Obs, &RunResult) -> Vec<Failure> + Sync),
) -> bool {
    let s2 = sc.clone();
    let s3 = sc.clone();
    let class = class.to_string();
    explore_scenario::<Obs, _, _>(
        cfg,
        acc,
        &scenario_json(sc),
        move |o| scenario_body(s2.clone(), o),
        |o, r| {
            let (mut f, _) = judge_conn(&s3, o, r, &JudgeOpts::default());
            f.extend(extra(&s3, o, r));
            f.into_iter()
                .map(|fl| {
                    let key = match fl.clause {
                        "machinery" => "machinery".to_string(),
                        "panic" | "hang" => format!("{}:{}", fl.clause, class),
                        _ => class.clone(),
                    };
                    (key, format!("[{}] {}", fl.clause, fl.desc))
                })
                .collect()
        },
    )
}

pub fn replay_runner_scenario(
    acc: &mut Acc,
    replay: &Value,
    class: &str,
    extra: &(dyn Fn(&Scenario, &Obs, &RunResult) -> Vec<Failure> + Sync),
) {
    let sc = scenario_from_json(&replay["scenario"]);
    let s2 = sc.clone();
    let class = class.to_string();
    replay_schedule::<Obs, _, _>(
        acc,
        replay,
        move |o| scenario_body(s2.clone(), o),
        |o, r| {
            let (mut f, _) = judge_conn(&sc, o, r, &JudgeOpts::default());
            f.extend(extra(&sc, o, r));
            f.into_iter()
                .map(|fl| {
                    let key = match fl.clause {
                        "machinery" => "machinery".to_string(),
                        "panic" | "hang" => format!("{}:{}", fl.clause, class),
                        _ => class.clone(),
                    };
                    (key, format!("[{}] {}", fl.clause, fl.desc))
                })
                .collect()
        },
    );
}
