//! Generic oracle for one scripted connection: compares what the application received
//! and what the client got back with the reference model.

use crate::httpparse::{parse_stream, Framing};
use crate::infra::esc_short;
use crate::refmodel::{model, BodyKind, Expect, Model};
use crate::runner::*;
use tiny_http::verif_rt::core::{End, RunResult};

#[derive(Clone, Debug)]
pub struct Failure {
    pub clause: &'static str,
    pub desc: String,
}

fn fail(v: &mut Vec<Failure>, clause: &'static str, desc: String) {
    v.push(Failure { clause, desc });
}

/// Bytes the script sends on connection `ci`, and whether/how the client ends.
pub struct ClientStream {
    pub bytes: Vec<u8>,
    pub half_closed: bool,
    pub closed: bool,
    pub reset: bool,
}

pub fn client_stream(sc: &Scenario, ci: usize) -> ClientStream {
    let mut cs = ClientStream {
        bytes: Vec::new(),
        half_closed: false,
        closed: false,
        reset: false,
    };
    for (c, st) in &sc.script {
        if *c != ci {
            continue;
        }
        match st {
            Step::Send(b) => cs.bytes.extend_from_slice(b),
            Step::SendIfContinue(b) => cs.bytes.extend_from_slice(b),
            Step::CloseWrite => cs.half_closed = true,
            Step::Close => cs.closed = true,
            Step::Reset => cs.reset = true,
            _ => (),
        }
    }
    cs
}

/// Robustness clauses shared by every check: no panic inside the library, no hang.
pub fn judge_robust(res: &RunResult, allow_handler_panic: bool) -> Vec<Failure> {
    let mut f = Vec::new();
    for p in &res.panics {
        let intended = p.message.starts_with("verif: handler panics");
        if intended && allow_handler_panic {
            continue;
        }
        fail(
            &mut f,
            "panic",
            format!(
                "thread `{}` panicked: {} at {}{}",
                p.thread_name,
                p.message,
                p.location,
                if p.lib_frames.is_empty() {
                    String::new()
                } else {
                    format!(" via {}", p.lib_frames.first().unwrap())
                }
            ),
        );
    }
    match res.end {
        End::Clean => (),
        End::Deadlock => fail(
            &mut f,
            "hang",
            format!("the conversation never finishes: {}", res.blocked.join(" | ")),
        ),
        End::Leftover => fail(
            &mut f,
            "hang",
            format!("threads blocked for ever after shutdown: {}", res.blocked.join(" | ")),
        ),
        End::StepCap => fail(&mut f, "hang", "step cap hit (livelock)".into()),
        End::Diverged => fail(&mut f, "machinery", format!("replay diverged: {:?}", res.divergence)),
    }
    f
}

pub struct JudgeOpts {
    /// check the application-side view (delivered requests)
    pub delivery: bool,
    /// check the client-side view (responses, order, end-of-stream)
    pub responses: bool,
    pub allow_handler_panic: bool,
}

impl Default for JudgeOpts {
    fn default() -> JudgeOpts {
        JudgeOpts {
            delivery: true,
            responses: true,
            allow_handler_panic: true,
        }
    }
}

fn plan_of(sc: &Scenario, i: usize) -> &ReqPlan {
    &sc.app.plans[i.min(sc.app.plans.len() - 1)]
}

/// Judges connection 0 of a single-connection scenario against the reference model.
pub fn judge_conn(sc: &Scenario, obs: &Obs, res: &RunResult, opts: &JudgeOpts) -> (Vec<Failure>, Model) {
    let mut cs = client_stream(sc, 0);
    if let Some(c) = obs.conns.get(0) {
        if c.gave_up {
            // a reactive client withheld part of its script and gave up
            cs.bytes = c.sent_bytes.clone();
            cs.half_closed = true;
        }
    }
    let m = model(&cs.bytes);
    let mut f = judge_robust(res, opts.allow_handler_panic);
    if res.end != End::Clean && res.end != End::Leftover {
        // the observation is partial; the hang itself is the verdict
        return (f, m);
    }
    let vanished = cs.closed || cs.reset;
    // ---------------- what the application received
    let exp: Vec<&crate::refmodel::ExpReq> = m.delivered();
    let judged_events = m
        .events
        .iter()
        .position(|e| matches!(e, Expect::DontCare(_)))
        .unwrap_or(m.events.len());
    let dont_care = judged_events < m.events.len();
    if opts.delivery {
        if !dont_care && !vanished && obs.reqs.len() != exp.len() {
            fail(
                &mut f,
                "delivered-count",
                format!(
                    "{} requests delivered, the byte stream contains {} deliverable ones (delivered: {:?})",
                    obs.reqs.len(),
                    exp.len(),
                    obs.reqs.iter().map(|r| format!("{} {}", r.method, esc_short(r.url.as_bytes(), 40))).collect::<Vec<_>>()
                ),
            );
        }
        if (dont_care || vanished) && obs.reqs.len() > exp.len() && !dont_care {
            fail(
                &mut f,
                "delivered-count",
                format!("{} requests delivered but only {} are complete in the stream", obs.reqs.len(), exp.len()),
            );
        }
        for (i, (got, want)) in obs.reqs.iter().zip(exp.iter()).enumerate() {
            if got.method != want.method {
                fail(&mut f, "head-method", format!("request {}: method `{}` delivered, `{}` sent", i, got.method, want.method));
            }
            if got.url != want.target {
                fail(
                    &mut f,
                    "head-target",
                    format!("request {}: target `{}` delivered, `{}` sent", i, esc_short(got.url.as_bytes(), 60), esc_short(want.target.as_bytes(), 60)),
                );
            }
            if got.version != want.version {
                fail(&mut f, "head-version", format!("request {}: version {:?} delivered, {:?} sent", i, got.version, want.version));
            }
            let hdr_ok = got.headers.len() == want.headers.len()
                && got
                    .headers
                    .iter()
                    .zip(want.headers.iter())
                    .all(|(a, b)| a.0.eq_ignore_ascii_case(&b.0) && a.1 == b.1);
            if !hdr_ok {
                fail(
                    &mut f,
                    "head-headers",
                    format!(
                        "request {}: header list delivered {:?} differs from the one sent {:?}",
                        i,
                        got.headers.iter().map(|(n, v)| format!("{}: {}", esc_short(n.as_bytes(), 30), esc_short(v.as_bytes(), 30))).collect::<Vec<_>>(),
                        want.headers.iter().map(|(n, v)| format!("{}: {}", esc_short(n.as_bytes(), 30), esc_short(v.as_bytes(), 30))).collect::<Vec<_>>()
                    ),
                );
            }
            let want_addr = if sc.conns[0].unnamed_peer {
                None
            } else {
                Some(peer_addr_for(0).to_string())
            };
            if got.remote_addr != want_addr {
                fail(&mut f, "peer-addr", format!("request {}: remote_addr {:?}, expected {:?}", i, got.remote_addr, want_addr));
            }
            // declared length
            match want.kind {
                BodyKind::Length(n) => {
                    if got.body_length != Some(n) {
                        fail(&mut f, "body-length", format!("request {}: body_length() = {:?}, Content-Length: {}", i, got.body_length, n));
                    }
                }
                BodyKind::None | BodyKind::Rest => {
                    if got.body_length.is_some() && !want.headers.iter().any(|(n, _)| n.eq_ignore_ascii_case("content-length")) {
                        fail(&mut f, "body-length", format!("request {}: body_length() = {:?} without any declared length", i, got.body_length));
                    }
                }
                BodyKind::Chunked => (),
            }
            // body
            let plan = plan_of(sc, i);
            if matches!(plan.finish, Finish::Upgrade) && want.kind != BodyKind::Rest {
                // the upgrade program also drains the socket after the body; judged by its own check
                continue;
            }
            match &plan.read {
                ReadPlan::None => (),
                ReadPlan::OtherMethod { method } if *method >= 1000 => {
                    // the first n bytes, end-of-stream not observed
                    let n = (*method - 1000).min(want.body.len());
                    if got.body[..] != want.body[..n] {
                        fail(&mut f, "body-bytes", format!("request {}: reads around an empty-buffer read returned `{}`, expected `{}`", i, esc_short(&got.body, 60), esc_short(&want.body[..n], 60)));
                    }
                }
                ReadPlan::ReadToEnd | ReadPlan::OtherMethod { .. } | ReadPlan::Sizes { limit: None, .. } if !want.body_complete => {
                    // the stream ended inside the body: how much of the fragment is handed
                    // out is not pinned down, but never bytes that are not part of it
                    if got.body.len() > want.body.len() || got.body[..] != want.body[..got.body.len()] {
                        fail(
                            &mut f,
                            "body-overrun",
                            format!("request {}: body read `{}` is not a prefix of the (truncated) body `{}`", i, esc_short(&got.body, 60), esc_short(&want.body, 60)),
                        );
                    }
                }
                ReadPlan::ReadToEnd | ReadPlan::OtherMethod { .. } | ReadPlan::Sizes { limit: None, .. } => {
                    if got.body != want.body {
                        let key = if got.body.len() > want.body.len() { "body-overrun" } else { "body-bytes" };
                        fail(
                            &mut f,
                            key,
                            format!(
                                "request {}: body read has {} bytes `{}`, framing designates {} bytes `{}`",
                                i, got.body.len(), esc_short(&got.body, 60), want.body.len(), esc_short(&want.body, 60)
                            ),
                        );
                    }
                    if want.body_complete {
                        if !got.eof_seen || got.read_error.is_some() {
                            fail(&mut f, "body-eof", format!("request {}: reading did not end with end-of-stream (error {:?})", i, got.read_error));
                        } else if !got.eof_sticky {
                            fail(&mut f, "body-eof", format!("request {}: a read after end-of-stream returned data", i));
                        }
                    }
                }
                ReadPlan::ThenZeroLengthRead { limit, .. } => {
                    let n = (*limit).min(want.body.len());
                    if got.body[..] != want.body[..n.min(want.body.len())] {
                        fail(&mut f, "body-bytes", format!("request {}: read of {} bytes returned `{}`", i, limit, esc_short(&got.body, 60)));
                    }
                }
                ReadPlan::Sizes { limit: Some(l), .. } => {
                    let n = (*l).min(want.body.len());
                    if got.body.len() > n || got.body[..] != want.body[..got.body.len()] || (want.body_complete && got.body.len() != n) {
                        fail(
                            &mut f,
                            "body-bytes",
                            format!("request {}: partial read of {} bytes returned `{}`, expected `{}`", i, l, esc_short(&got.body, 60), esc_short(&want.body[..n], 60)),
                        );
                    }
                }
            }
        }
    }
    // ---------------- what the client got back
    // a response whose body source failed cannot be delimited by the client: what follows
    // it on the connection is judged by the check that generates such programs (C06)
    let undelimitable = sc.app.plans.iter().any(|p| matches!(p.finish, Finish::RespondFailingReader { .. }));
    if opts.responses && !vanished && !undelimitable {
        let co = &obs.conns[0];
        // expected final responses in order
        #[derive(Debug)]
        struct Want {
            status: u16,
            id: Option<usize>,
            body: Option<Vec<u8>>,
            head: bool,
            interim_100: bool,
            upgrade_rest: Option<usize>,
            /// a raw writer that the application does not flush: its bytes (and with them
            /// everything later on the connection) may still sit in the write buffer
            unflushed: bool,
        }
        let mut wants: Vec<Want> = Vec::new();
        let mut di = 0usize;
        for e in m.events.iter().take(judged_events) {
            match e {
                Expect::Deliver(r) => {
                    if di >= obs.reqs.len() {
                        break;
                    }
                    let plan = plan_of(sc, di);
                    let head = r.method == "HEAD";
                    let touches = !matches!(plan.read, ReadPlan::None) || matches!(plan.finish, Finish::Upgrade);
                    let interim = r.expects_continue && touches && !matches!(plan.finish, Finish::Upgrade);
                    let w = match &plan.finish {
                        Finish::Respond(spec) => {
                            let nobody = head || (100..200).contains(&spec.status) || spec.status == 204 || spec.status == 304;
                            Want {
                                status: spec.status,
                                id: Some(di),
                                body: if nobody { Some(Vec::new()) } else { Some(body_for(di, spec.body_len)) },
                                head,
                                interim_100: interim,
                                upgrade_rest: None,
                                unflushed: false,
                            }
                        }
                        Finish::Writer { parts, flush } => {
                            // the application's own bytes define the message, whatever the method
                            let head = false;
                            let not_flushed = !*flush;
                            let all: Vec<u8> = parts.concat();
                            let st = parse_stream(&all, &[head]);
                            match st.finals().first() {
                                Some(msg) => Want {
                                    status: msg.status,
                                    id: msg.header("X-Id").and_then(|v| v.parse().ok()),
                                    body: Some(msg.body.clone()),
                                    head,
                                    interim_100: interim,
                                    upgrade_rest: None,
                                    unflushed: not_flushed,
                                },
                                None => Want { status: 0, id: None, body: None, head, interim_100: interim, upgrade_rest: None, unflushed: false },
                            }
                        }
                        Finish::Upgrade => Want {
                            status: 101,
                            id: None,
                            body: None,
                            head,
                            interim_100: false,
                            upgrade_rest: Some(di),
                            unflushed: false,
                        },
                        Finish::RespondFailingReader { .. } => Want { status: 0, id: None, body: None, head, interim_100: false, upgrade_rest: None, unflushed: false },
                        Finish::Drop | Finish::Panic => Want {
                            status: 500,
                            id: None,
                            // what the automatic 500 carries as a body is not pinned down
                            // (legit-changes/G-change1 gives it a short text)
                            body: None,
                            head,
                            interim_100: interim,
                            upgrade_rest: None,
                            unflushed: false,
                        },
                    };
                    wants.push(w);
                    di += 1;
                }
                Expect::Reject { status, .. } => wants.push(Want {
                    status: *status,
                    id: None,
                    body: None,
                    head: false,
                    interim_100: false,
                    upgrade_rest: None,
                    unflushed: false,
                }),
                Expect::SilentClose | Expect::Incomplete | Expect::DontCare(_) => (),
            }
        }
        let wants: Vec<Want> = wants.into_iter().filter(|w| w.status != 0).collect();
        let heads: Vec<bool> = wants.iter().map(|w| w.head).collect();
        // what had arrived when the script was over and nothing could run any more: an
        // answer that only comes once the client gives up (the runner's orderly shutdown)
        // does not count
        let received = &co.received[..co.received_at_script_end.min(co.received.len())];
        let st = parse_stream(received, &heads);
        if let Some(e) = &st.error {
            if !dont_care {
                fail(
                    &mut f,
                    if e.truncated { "response-truncated" } else { "response-malformed" },
                    format!("client stream does not parse at byte {}: {} (stream: `{}`)", e.at, e.what, esc_short(received, 300)),
                );
            }
        }
        let finals = st.finals();
        let got_statuses: Vec<u16> = finals.iter().map(|m| m.status).collect();
        let want_statuses: Vec<u16> = wants.iter().map(|w| w.status).collect();
        // from the first raw response that the application did not flush onwards, answers may
        // still sit in the connection's write buffer when the script is over: everything
        // BEFORE it must have arrived, what is there must be a prefix of what is expected
        let first_unflushed = wants.iter().position(|w| w.unflushed);
        let statuses_ok = if dont_care {
            got_statuses.len() >= want_statuses.len() && got_statuses[..want_statuses.len()] == want_statuses[..]
        } else if got_statuses == want_statuses {
            true
        } else if let Some(k) = first_unflushed {
            got_statuses.len() >= k && got_statuses.len() <= want_statuses.len() && got_statuses[..] == want_statuses[..got_statuses.len()]
        } else {
            false
        };
        if !statuses_ok && st.error.is_none() {
            fail(
                &mut f,
                "response-sequence",
                format!("client received final statuses {:?}, expected {:?}", got_statuses, want_statuses),
            );
        } else if st.error.is_none() || dont_care {
            // per message
            let mut mi = 0usize;
            let mut wi = 0usize;
            let mut interim_seen = 0usize;
            while mi < st.msgs.len() && wi < wants.len() {
                let msg = &st.msgs[mi];
                if msg.is_interim() {
                    if msg.status == 100 {
                        interim_seen += 1;
                    }
                    mi += 1;
                    continue;
                }
                let w = &wants[wi];
                let want_interim = if w.interim_100 { 1 } else { 0 };
                if interim_seen != want_interim {
                    fail(
                        &mut f,
                        "continue-count",
                        format!("{} interim 100 responses before final response #{}, expected {}", interim_seen, wi, want_interim),
                    );
                }
                interim_seen = 0;
                if let Some(id) = w.id {
                    let got_id: Option<usize> = msg.header("X-Id").and_then(|v| v.parse().ok());
                    if got_id != Some(id) {
                        fail(&mut f, "response-order", format!("final response #{} carries X-Id {:?}, expected {}", wi, got_id, id));
                    }
                }
                if let Some(b) = &w.body {
                    if msg.body != *b {
                        fail(
                            &mut f,
                            "response-body",
                            format!("final response #{} (status {}) has body `{}`, expected `{}`", wi, msg.status, esc_short(&msg.body, 60), esc_short(b, 60)),
                        );
                    }
                }
                if let Some(di) = w.upgrade_rest {
                    let rest_len = obs.reqs.get(di).map_or(0, |r| r.body.len());
                    let want_tail = format!("UP{}:{}", di, rest_len).into_bytes();
                    if msg.framing != Framing::Upgraded || msg.after_upgrade != want_tail {
                        fail(
                            &mut f,
                            "upgrade-stream",
                            format!("after the 101 response the client received `{}`, expected `{}`", esc_short(&msg.after_upgrade, 60), esc_short(&want_tail, 60)),
                        );
                    }
                }
                mi += 1;
                wi += 1;
            }
        }
        // ---------------- end of stream
        if !dont_care {
            let all_events_answered = wants.len() == finals.len();
            let incomplete_tail = matches!(m.events.last(), Some(Expect::Incomplete))
                || m.delivered().last().map_or(false, |r| !r.body_complete);
            let expect_eof = m.server_closes || cs.half_closed;
            let _ = incomplete_tail;
            if expect_eof && !co.eof_at_script_end && all_events_answered {
                fail(
                    &mut f,
                    "no-close",
                    format!(
                        "the server must close its sending side after the last response ({}), but the client sees no end-of-stream",
                        if m.server_closes { "connection-ending request / rejection" } else { "client closed its sending side" }
                    ),
                );
            }
            if !expect_eof && co.eof_at_script_end {
                fail(&mut f, "early-close", "the connection must stay open, but the client sees end-of-stream".into());
            }
        }
    }
    (f, m)
}
