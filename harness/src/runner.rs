//! Conversation runner: a real `tiny_http::Server` on the in-memory network, scripted
//! clients, an application program, and the observation the oracles judge.

pub use crate::scenario::*;
use crate::infra::esc_short;
use serde_json::{json, Value};
use std::sync::{Arc, Mutex};
use std::time::Duration;
use tiny_http::verif_rt::core::{RunCfg, RunResult};
use tiny_http::verif_rt::net::{self, ClientEnd, ConnectOpts, MemAddr, MemListener, PeerKind};
use tiny_http::verif_rt::{ctl, thread};
use tiny_http::{Listener, ListenAddr, Server};

fn ev(o: &SharedObs, s: String) {
    o.lock().unwrap().events.push(s);
}

// ------------------------------------------------------------------------- server setup

pub struct Srv {
    pub server: Arc<Server>,
    pub addr: MemAddr,
}

pub fn start_server() -> Srv {
    let l = MemListener::bind();
    let server = Server::from_listener(Listener::Mem(l), None).expect("server");
    let addr = match server.server_addr() {
        ListenAddr::Mem(a) => a,
        _ => unreachable!(),
    };
    Srv {
        server: Arc::new(server),
        addr,
    }
}


pub fn connect(addr: &MemAddr, idx: usize, spec: &ConnSpec) -> std::io::Result<ClientEnd> {
    ClientEnd::connect(
        addr,
        ConnectOpts {
            peer: if spec.unnamed_peer {
                PeerKind::Unnamed
            } else {
                PeerKind::Ip(peer_addr_for(idx))
            },
            s2c_capacity: spec.capacity,
            s2c_cut: spec.cut.map(|(n, k)| {
                (
                    n,
                    match k {
                        CutKind::Close => net::CutKind::Close,
                        CutKind::Reset => net::CutKind::Reset,
                    },
                )
            }),
        },
    )
}

// ------------------------------------------------------------------------- the run

fn absorb(c: &ClientEnd, ob: &mut ConnObs) {
    let d = c.drain();
    for s in d.segments {
        ob.segments.push(s.len());
        ob.received.extend_from_slice(&s);
    }
    ob.eof = d.eof;
    ob.reset = d.reset;
    ob.server_consumed = c.server_consumed();
}

pub fn scenario_body(sc: Scenario, obs: SharedObs) {
    ctl::window(false);
    let srv = start_server();
    ctl::settle();
    obs.lock().unwrap().conns = vec![ConnObs::default(); sc.conns.len()];
    let app = {
        let (s, a, o) = (srv.server.clone(), sc.app.clone(), obs.clone());
        thread::spawn_named(Some("app".into()), move || app_thread(s, a, o))
    };
    ctl::settle();
    ctl::window(true);
    let mut clients: Vec<Option<ClientEnd>> = (0..sc.conns.len()).map(|_| None).collect();
    for (ci, step) in &sc.script {
        let ci = *ci;
        if clients[ci].is_none() && !matches!(step, Step::AppGo | Step::Settle | Step::SleepMs(_)) {
            match connect(&srv.addr, ci, &sc.conns[ci]) {
                Ok(c) => {
                    clients[ci] = Some(c);
                    obs.lock().unwrap().conns[ci].connected = true;
                }
                Err(e) => {
                    ev(&obs, format!("conn {} refused: {:?}", ci, e.kind()));
                    continue;
                }
            }
        }
        match step {
            Step::Connect => (),
            Step::Send(b) => {
                let c = clients[ci].as_ref().unwrap();
                let r = c.send(b);
                let mut o = obs.lock().unwrap();
                o.conns[ci].sent += b.len() as u64;
                o.conns[ci].sent_bytes.extend_from_slice(b);
                if let Err(e) = r {
                    o.events.push(format!("conn {} send failed: {:?}", ci, e.kind()));
                }
            }
            Step::Settle => ctl::settle(),
            Step::CloseWrite => clients[ci].as_ref().unwrap().close_write(),
            Step::Close => {
                let mut co = obs.lock().unwrap().conns[ci].clone();
                absorb(clients[ci].as_ref().unwrap(), &mut co);
                obs.lock().unwrap().conns[ci] = co;
                clients[ci].as_mut().unwrap().close();
            }
            Step::Reset => {
                let mut co = obs.lock().unwrap().conns[ci].clone();
                absorb(clients[ci].as_ref().unwrap(), &mut co);
                obs.lock().unwrap().conns[ci] = co;
                clients[ci].as_mut().unwrap().reset();
            }
            Step::Drain => {
                let mut co = obs.lock().unwrap().conns[ci].clone();
                absorb(clients[ci].as_ref().unwrap(), &mut co);
                obs.lock().unwrap().conns[ci] = co;
            }
            Step::SleepMs(ms) => ctl::sleep(Duration::from_millis(*ms)),
            Step::SendIfContinue(b) => {
                ctl::settle();
                let mut co = obs.lock().unwrap().conns[ci].clone();
                absorb(clients[ci].as_ref().unwrap(), &mut co);
                let has_100 = {
                    let st = crate::httpparse::parse_stream(&co.received, &[]);
                    st.msgs.iter().any(|m| m.status == 100)
                };
                obs.lock().unwrap().conns[ci] = co;
                let c = clients[ci].as_ref().unwrap();
                if has_100 {
                    let _ = c.send(b);
                    let mut o = obs.lock().unwrap();
                    o.conns[ci].sent += b.len() as u64;
                    o.conns[ci].sent_bytes.extend_from_slice(b);
                } else {
                    ev(&obs, format!("conn {}: no 100 seen, body withheld, closing write side", ci));
                    c.close_write();
                    obs.lock().unwrap().conns[ci].gave_up = true;
                }
            }
            Step::AppGo => srv.server.unblock(),
        }
    }
    ctl::settle();
    obs.lock().unwrap().script_done = true;
    ctl::window(false);
    for ci in 0..clients.len() {
        if let Some(c) = clients[ci].as_ref() {
            let mut co = obs.lock().unwrap().conns[ci].clone();
            absorb(c, &mut co);
            co.eof_at_script_end = co.eof;
            co.received_at_script_end = co.received.len();
            obs.lock().unwrap().conns[ci] = co;
        }
    }
    if sc.probe_after {
        // six fresh connections one after the other: with four resident workers taking turns
        // every worker that served the scripted connections serves a probe as well
        let ok = (0..6).all(|k| probe(&srv.addr, 9000 + k));
        obs.lock().unwrap().probe_ok = Some(ok);
    }
    // orderly end: the clients finish sending (an application thread may still be
    // skipping a body the client has not sent in full), the application stops, the
    // server is dropped
    for ci in 0..clients.len() {
        if let Some(c) = clients[ci].as_mut() {
            c.close_write();
        }
    }
    ctl::settle();
    srv.server.unblock();
    if sc.app.deferred {
        // the first unblock flushed the stash if AppGo was never issued
        ctl::settle();
        srv.server.unblock();
    }
    let _ = app.join();
    obs.lock().unwrap().live_threads_before_drop = ctl::live_threads();
    ctl::settle();
    for ci in 0..clients.len() {
        if let Some(c) = clients[ci].as_ref() {
            let mut co = obs.lock().unwrap().conns[ci].clone();
            absorb(c, &mut co);
            obs.lock().unwrap().conns[ci] = co;
        }
    }
    for c in clients.iter_mut().flatten() {
        c.close();
    }
    let addr = srv.addr.clone();
    drop(srv);
    ctl::settle();
    if addr.is_listening() {
        // 'within a short bounded time': one virtual second, watched passively
        ctl::sleep(Duration::from_millis(1000));
        ctl::settle();
    }
    let refused = connect(&addr, 98, &ConnSpec::default()).is_err();
    obs.lock().unwrap().refused_after_drop = Some(refused);
    if sc.idle_after {
        ctl::sleep(Duration::from_millis(6000));
        ctl::settle();
    }
    obs.lock().unwrap().live_threads_end = ctl::live_threads();
    obs.lock().unwrap().server_handles_end = ctl::open_server_handles();
}

/// Opens a fresh connection, sends a GET and checks that one 200 response arrives.
pub fn probe(addr: &MemAddr, idx: usize) -> bool {
    let c = match connect(addr, idx, &ConnSpec::default()) {
        Ok(c) => c,
        Err(_) => return false,
    };
    let _ = c.send(b"GET /probe HTTP/1.1\r\nHost: p\r\nConnection: close\r\n\r\n");
    ctl::settle();
    let d = c.drain();
    let all: Vec<u8> = d.segments.concat();
    let st = crate::httpparse::parse_stream(&all, &[false]);
    st.error.is_none() && st.finals().len() == 1 && st.finals()[0].status == 200 && d.eof
}

pub fn run_scenario(sc: &Scenario, rc: &RunCfg) -> (Obs, RunResult) {
    let obs: SharedObs = Arc::new(Mutex::new(Obs::default()));
    let o2 = obs.clone();
    let sc2 = sc.clone();
    let res = ctl::run(rc, move || scenario_body(sc2, o2));
    let o = obs.lock().unwrap().clone();
    (o, res)
}

pub fn obs_json(o: &Obs, res: &RunResult) -> Value {
    json!({
        "requests_delivered": o.reqs.iter().map(|r| json!({
            "conn": r.conn, "method": r.method, "url": esc_short(r.url.as_bytes(), 120),
            "version": format!("{}.{}", r.version.0, r.version.1),
            "headers": r.headers.iter().map(|(n, v)| format!("{}: {}", esc_short(n.as_bytes(), 60), esc_short(v.as_bytes(), 60))).collect::<Vec<_>>(),
            "body": esc_short(&r.body, 120), "body_bytes": r.body.len(), "eof_seen": r.eof_seen,
            "body_length": r.body_length, "remote_addr": r.remote_addr, "read_error": r.read_error, "finish": r.finish,
        })).collect::<Vec<_>>(),
        "connections": o.conns.iter().map(|c| json!({
            "received": esc_short(&c.received, 400), "received_bytes": c.received.len(), "eof": c.eof, "reset": c.reset,
            "server_consumed": c.server_consumed, "sent": c.sent,
        })).collect::<Vec<_>>(),
        "recv_errors": o.recv_errors, "events": o.events, "probe_ok": o.probe_ok,
        "script_done": o.script_done,
        "end": format!("{:?}", res.end), "blocked": res.blocked,
        "panics": res.panics.iter().map(|p| format!("{} [{}] at {} (lib frames: {})", p.message, p.thread_name, p.location, p.lib_frames.len())).collect::<Vec<_>>(),
    })
}

