//! C07 — see props/queue.rs (component seam) for the scenario families and oracles.

use crate::infra::*;
use crate::props::queue::*;
use serde_json::Value;
use std::sync::OnceLock;

pub struct C07;

fn scen(tier: Tier) -> &'static Vec<QScenario> {
    static Q: OnceLock<Vec<QScenario>> = OnceLock::new();
    static T: OnceLock<Vec<QScenario>> = OnceLock::new();
    let cell = if tier == Tier::Quick { &Q } else { &T };
    cell.get_or_init(|| if "C07" == "C07" { scenarios_c07(tier) } else { scenarios_c17(tier) })
}

impl Check for C07 {
    fn id(&self) -> &'static str {
        "C07"
    }
    fn level(&self) -> &'static str {
        "model_checking"
    }
    fn n_items(&self, tier: Tier) -> u64 {
        scen(tier).len() as u64
    }
    fn chunk(&self, _tier: Tier) -> u64 {
        4
    }
    fn run_item(&self, idx: u64, tier: Tier, acc: &mut Acc) {
        run_queue_item("C07", &scen(tier)[idx as usize], tier, acc);
    }
    fn rule(&self, tier: Tier) -> String {
        rule_text("C07", tier, scen(tier).len())
    }
    fn assumptions(&self) -> Vec<String> {
        vec![
            "timing clauses are decided on the virtual clock (a timed wait may expire at any scheduling decision, at the cost of one deviation; otherwise time passes only at quiescence); the upper bound of recv_timeout is judged only in executions without such a deviation, which model unbounded scheduling latency".into(),
            "the component seam drives tiny_http::util::MessagesQueue directly (the object behind Server::recv / recv_timeout / try_recv / unblock)".into(),
        ]
    }
    fn replay(&self, replay: &Value, acc: &mut Acc) {
        replay_queue("C07", replay, acc);
    }
}
