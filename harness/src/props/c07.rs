//! C07 — see props/queue.rs (component seam) for the scenario families and oracles.

use crate::infra::*;
use crate::props::queue::*;
use crate::props::srvq;
use serde_json::Value;
use std::sync::OnceLock;

pub struct C07;

fn scen(tier: Tier) -> &'static Vec<QScenario> {
    static Q: OnceLock<Vec<QScenario>> = OnceLock::new();
    static T: OnceLock<Vec<QScenario>> = OnceLock::new();
    let cell = if tier == Tier::Quick { &Q } else { &T };
    cell.get_or_init(|| if "C07" == "C07" { scenarios_c07(tier) } else { scenarios_c17(tier) })
}

fn srv_scen(tier: Tier) -> &'static Vec<(srvq::SScenario, u32)> {
    static Q: OnceLock<Vec<(srvq::SScenario, u32)>> = OnceLock::new();
    static T: OnceLock<Vec<(srvq::SScenario, u32)>> = OnceLock::new();
    let cell = if tier == Tier::Quick { &Q } else { &T };
    cell.get_or_init(|| srvq::scenarios("C07", tier))
}

impl Check for C07 {
    fn id(&self) -> &'static str {
        "C07"
    }
    fn level(&self) -> &'static str {
        "model_checking"
    }
    fn n_items(&self, tier: Tier) -> u64 {
        (scen(tier).len() + srv_scen(tier).len() + crate::props::backlog::sizes(tier).len() + crate::props::twoservers::cases(tier).len()) as u64
    }
    fn chunk(&self, _tier: Tier) -> u64 {
        4
    }
    fn run_item(&self, idx: u64, tier: Tier, acc: &mut Acc) {
        let nq = scen(tier).len() as u64;
        if idx < nq {
            run_queue_item("C07", &scen(tier)[idx as usize], tier, acc);
        } else if idx < nq + srv_scen(tier).len() as u64 {
            let (sc, bound) = &srv_scen(tier)[(idx - nq) as usize];
            srvq::run_item("C07", sc, *bound, tier, acc);
        } else if idx < nq + srv_scen(tier).len() as u64 + crate::props::backlog::sizes(tier).len() as u64 {
            crate::props::backlog::run_item((idx - nq - srv_scen(tier).len() as u64) as usize, tier, acc);
        } else {
            crate::props::twoservers::run_item((idx - nq - srv_scen(tier).len() as u64 - crate::props::backlog::sizes(tier).len() as u64) as usize, tier, acc);
        }
    }
    fn rule(&self, tier: Tier) -> String {
        format!(
            "{} || server seam: real Server, application threads with programs over {{recv, recv_timeout(T), try_recv, incoming_requests().next() on a fresh iterator, next() on one iterator kept across calls}} (every single program and pair{}), connections {} with pipelined requests, {} unblock calls, receivers blocked first or racing; {} scenarios, strict bound {}; same oracles read through Server::verif_queue_snapshot (hook H5) || {} || {}",
            rule_text("C07", tier, scen(tier).len()),
            if tier == Tier::Thorough { " and one triple" } else { "" },
            if "C07" == "C07" { "[1] [2] [1,1] [2,1]" } else { "[] [1] [1,1]" },
            if "C07" == "C07" { "0..1" } else { "1..2" },
            srv_scen(tier).len(),
            if tier == Tier::Thorough { "2 (<= 2 receivers+connections) / 1" } else { "1 / 0" },
            crate::props::backlog::RULE,
            crate::props::twoservers::RULE
        )
    }
    fn assumptions(&self) -> Vec<String> {
        vec![
            "timing clauses are decided on the virtual clock (a timed wait may expire at any scheduling decision, at the cost of one deviation; otherwise time passes only at quiescence); the upper bound of recv_timeout is judged only in executions without such a deviation, which model unbounded scheduling latency".into(),
            "the component seam drives tiny_http::util::MessagesQueue directly (the object behind Server::recv / recv_timeout / try_recv / unblock)".into(),
        ]
    }
    fn replay(&self, replay: &Value, acc: &mut Acc) {
        if crate::props::twoservers::is_replay(replay) {
            crate::props::twoservers::replay(replay, acc);
        } else if crate::props::backlog::is_backlog_replay(replay) {
            crate::props::backlog::replay(replay, acc);
        } else if replay["scenario"]["seam"].as_str() == Some("Server") {
            srvq::replay("C07", replay, acc);
        } else {
            replay_queue("C07", replay, acc);
        }
    }
}
