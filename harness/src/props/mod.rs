use crate::infra::Check;

pub mod c01;
pub mod c02;
pub mod c03;
pub mod c04;
pub mod c05;
pub mod c06;
pub mod c07;
pub mod c08;
pub mod c09;
pub mod c10;
pub mod c11;
pub mod c12;
pub mod c13;
pub mod c14;
pub mod c15;
pub mod c16;
pub mod c17;
pub mod c18;
pub mod c20;
pub mod backlog;
pub mod product;
pub mod queue;
pub mod srvq;
pub mod twoservers;
pub mod extremes;
pub mod c19;

pub fn all() -> Vec<Box<dyn Check>> {
    vec![Box::new(c01::C01), Box::new(c02::C02), Box::new(c03::C03), Box::new(c04::C04), Box::new(c05::C05), Box::new(c06::C06), Box::new(c07::C07), Box::new(c08::C08), Box::new(c09::C09), Box::new(c10::C10), Box::new(c11::C11), Box::new(c12::C12), Box::new(c13::C13), Box::new(c14::C14), Box::new(c15::C15), Box::new(c16::C16), Box::new(c17::C17), Box::new(c18::C18), Box::new(c19::C19), Box::new(c20::C20)]
}

/// Mixed-radix decoder: turns an item index into one choice per dimension.
pub struct Space {
    pub dims: Vec<usize>,
}

impl Space {
    pub fn new(dims: &[usize]) -> Space {
        Space {
            dims: dims.to_vec(),
        }
    }
    pub fn size(&self) -> u64 {
        self.dims.iter().map(|&d| d as u64).product()
    }
    /// digit 0 varies slowest
    pub fn decode(&self, mut idx: u64) -> Vec<usize> {
        let mut out = vec![0; self.dims.len()];
        for i in (0..self.dims.len()).rev() {
            let d = self.dims[i] as u64;
            out[i] = (idx % d) as usize;
            idx /= d;
        }
        out
    }
}
