//! C15 — a client vanishing at any point is contained.
//! Fault enumeration: every prefix of every corpus conversation followed by half-close,
//! close or reset; every response framing kind cut after every number of response bytes.

use crate::corpus::*;
use crate::gen::*;
use crate::infra::*;
use crate::judge::*;
use crate::l1::*;
use crate::refmodel::{model, Expect};
use crate::runner::*;
use serde_json::{json, Value};
use std::sync::OnceLock;
use tiny_http::verif_rt::core::RunCfg;

pub struct C15;

/// This check is cheap: the quick tier already runs the full alphabet (what used to be the
/// thorough tier); `deep` marks the extras that only the thorough tier adds.
#[allow(dead_code)]
fn full(_t: Tier) -> bool {
    true
}
#[allow(dead_code)]
fn deep(t: Tier) -> bool {
    t == Tier::Thorough
}

#[derive(Clone, Copy, Debug, PartialEq)]
enum EndKind {
    HalfClose,
    Close,
    Reset,
}

#[derive(Clone, Debug)]
enum Item {
    Prefix { conv: usize, unread: bool, k: usize, end: EndKind, settle_first: bool },
    Cut { kind: usize, j: u64, how: CutKind },
    NotReading { kind: usize, how: EndKind },
    GoneBeforeAnswer { kind: usize, how: EndKind },
    /// `count` clients one after the other, each sending a different prefix of a request
    /// with a body and then vanishing; afterwards a probe, an idle period, a thread count
    Many { count: usize, end: EndKind },
}

fn the_corpus() -> &'static Vec<Conv> {
    static C: OnceLock<Vec<Conv>> = OnceLock::new();
    C.get_or_init(|| corpus(true))
}

/// (name, request bytes, plan)
fn response_kinds() -> Vec<(&'static str, Vec<u8>, AppProgram)> {
    let resp = |len: usize, declared: bool| {
        AppProgram::uniform(ReqPlan {
            read: ReadPlan::all(512),
            finish: Finish::Respond(RespSpec { status: 200, body_len: len, declared, threshold: None, headers: 0 }),
        })
    };
    vec![
        ("identity-small", get("/r"), resp(10, true)),
        ("identity-5000", get("/r"), resp(5000, true)),
        ("chunked-5000", get("/r"), resp(5000, false)),
        ("chunked-70000", get("/r"), resp(70000, false)),
        ("identity-70000", get("/r"), AppProgram::uniform(ReqPlan { read: ReadPlan::None, finish: Finish::Respond(RespSpec { status: 200, body_len: 70000, declared: true, threshold: Some(usize::MAX), headers: 0 }) })),
        ("continue-then-response", [b"POST /e HTTP/1.1\r\nHost: t\r\nExpect: 100-continue\r\nContent-Length: 4\r\n\r\nbody".as_ref()].concat(), resp(600, true)),
        ("raw-writer-parts", get("/r"), AppProgram::uniform(ReqPlan { read: ReadPlan::None, finish: Finish::Writer { parts: raw_response_parts(0, 1500, 4), flush: true } })),
        // a response head larger than the 1 KiB write buffer (30 headers of ~50 bytes), alone and
        // as the second answer of a pipeline, so that the write that fails is the head's own
        ("big-head", get("/r"), AppProgram::uniform(ReqPlan { read: ReadPlan::None, finish: Finish::Respond(RespSpec { status: 404, body_len: 10, declared: true, threshold: None, headers: 30 }) })),
        ("pipeline-small-then-big-head", [get("/1"), get("/2")].concat(), AppProgram::with_plans(vec![ReqPlan::simple(), ReqPlan { read: ReadPlan::None, finish: Finish::Respond(RespSpec { status: 404, body_len: 10, declared: true, threshold: None, headers: 30 }) }])),
        ("pipeline-of-two", [get("/1"), get("/2")].concat(), resp(700, true)),
        ("auto-500-after-drop", [get("/1"), get("/2")].concat(), AppProgram::uniform(ReqPlan { read: ReadPlan::None, finish: Finish::Drop })),
    ]
}

fn boundary_offsets(b: &[u8]) -> Vec<usize> {
    let mut v = std::collections::BTreeSet::new();
    v.insert(0);
    v.insert(b.len());
    for i in 0..b.len() {
        let interesting = b[i] == b'\r' || b[i] == b'\n' || b[i] == b' ' || b[i] == b':';
        if interesting {
            for d in [0usize, 1, 2] {
                if i + d <= b.len() {
                    v.insert(i + d);
                }
            }
        }
    }
    for base in [1023usize, 1024, 1025, 2048] {
        if base <= b.len() {
            v.insert(base);
        }
    }
    v.into_iter().collect()
}

fn items(tier: Tier) -> &'static Vec<Item> {
    static Q: OnceLock<Vec<Item>> = OnceLock::new();
    static T: OnceLock<Vec<Item>> = OnceLock::new();
    let cell = if !full(tier) { &Q } else { &T };
    cell.get_or_init(|| {
        let mut v = Vec::new();
        for (ci, c) in the_corpus().iter().enumerate() {
            // (the buffer-alignment conversations are long and differ only around one offset:
            // syntactic boundaries and the refill offsets, thorough: every prefix)
            let ks: Vec<usize> = if full(tier) && !(c.name.starts_with("align") && !deep(tier)) { (0..=c.bytes.len()).collect() } else { boundary_offsets(&c.bytes) };
            let ks: Vec<usize> = if !full(tier) && ks.len() > 80 { ks.iter().step_by(ks.len() / 80 + 1).copied().chain([c.bytes.len()]).collect() } else { ks };
            let variants: Vec<bool> = if c.app == read_all_respond() && !c.name.contains("chunked") && c.name != "cl-and-chunked" {
                vec![false, true]
            } else {
                vec![false]
            };
            for unread in variants {
                for &k in &ks {
                    for end in [EndKind::HalfClose, EndKind::Close, EndKind::Reset] {
                        for settle_first in [true, false] {
                            if !settle_first && !full(tier) && k % 3 != 0 {
                                continue;
                            }
                            v.push(Item::Prefix { conv: ci, unread, k, end, settle_first });
                        }
                    }
                }
            }
        }
        let kinds = response_kinds();
        for (ki, (name, _, _)) in kinds.iter().enumerate() {
            let js: Vec<u64> = if name.contains("70000") {
                vec![0, 1, 1024, 4096, 8192, 32768, 65536, 69999, 70100]
            } else if full(tier) {
                (0..=2048u64).chain([4096, 5200]).collect()
            } else {
                (0..=2048u64).step_by(7).chain([1023, 1024, 1025, 4096, 5200]).collect()
            };
            for j in js {
                for how in [CutKind::Close, CutKind::Reset] {
                    v.push(Item::Cut { kind: ki, j, how });
                }
            }
            for how in [EndKind::Close, EndKind::Reset, EndKind::HalfClose] {
                if how != EndKind::HalfClose {
                    // a client that neither reads nor goes away blocks the writer by TCP
                    // flow control: that is not a vanished client
                    v.push(Item::NotReading { kind: ki, how });
                }
                v.push(Item::GoneBeforeAnswer { kind: ki, how });
            }
        }
        for count in if deep(tier) { vec![300usize, 1100] } else { vec![300usize] } {
            for end in [EndKind::Close, EndKind::Reset, EndKind::HalfClose] {
                v.push(Item::Many { count, end });
            }
        }
        v
    })
}

fn many_request() -> Vec<u8> {
    let mut b = b"POST /many HTTP/1.1\r\nHost: t\r\nContent-Length: 1500\r\n\r\n".to_vec();
    b.extend_from_slice(&payload(1500));
    b.extend_from_slice(&get("/second"));
    b
}

fn end_step(e: EndKind) -> Step {
    match e {
        EndKind::HalfClose => Step::CloseWrite,
        EndKind::Close => Step::Close,
        EndKind::Reset => Step::Reset,
    }
}

fn scenario(it: &Item) -> (Scenario, String) {
    match it {
        Item::Prefix { conv, unread, k, end, settle_first } => {
            let c = &the_corpus()[*conv];
            let app = if *unread { respond_unread() } else { c.app.clone() };
            let mut script = vec![(0, Step::Connect)];
            if *k > 0 {
                script.push((0, Step::Send(c.bytes[..*k].to_vec())));
            }
            if *settle_first {
                script.push((0, Step::Settle));
            }
            script.push((0, end_step(*end)));
            script.push((0, Step::Settle));
            if app.deferred {
                script.push((0, Step::AppGo));
                script.push((0, Step::Settle));
            }
            (
                Scenario { conns: vec![ConnSpec::default()], script, app, probe_after: true, idle_after: false },
                format!("request-prefix-then-{:?}{}", end, if *settle_first { "" } else { "-at-once" }).to_lowercase(),
            )
        }
        Item::Many { count, end } => {
            let rq = many_request();
            let offs = boundary_offsets(&rq[..80]);
            let mut script = Vec::new();
            for i in 0..*count {
                if i % 5 == 4 {
                    // a witness (every fifth client: with four workers taking turns each worker gets witnesses): an ordinary client whose request must be served as if nobody
                    // had vanished before it (whichever worker gets it)
                    script.push((i, Step::Connect));
                    script.push((i, Step::Send(get(&format!("/witness{}", i)))));
                    script.push((i, Step::Settle));
                    script.push((i, Step::CloseWrite));
                    script.push((i, Step::Settle));
                    continue;
                }
                // prefixes: inside the head (boundary offsets), inside the body, complete
                let k = match i % 3 {
                    0 => offs[(i / 3) % offs.len()],
                    1 => 60 + (i * 37) % 1400,
                    _ => rq.len(),
                };
                script.push((i, Step::Connect));
                if k > 0 {
                    script.push((i, Step::Send(rq[..k].to_vec())));
                }
                if i % 2 == 0 {
                    script.push((i, Step::Settle));
                }
                script.push((i, end_step(*end)));
            }
            script.push((0, Step::Settle));
            (
                Scenario { conns: vec![ConnSpec::default(); *count], script, app: AppProgram::uniform(ReqPlan { read: ReadPlan::all(512), finish: Finish::Respond(RespSpec::ok(700)) }), probe_after: true, idle_after: true },
                format!("many-clients-then-{:?}", end).to_lowercase(),
            )
        }
        Item::Cut { kind, j, how } => {
            let (name, rq, app) = &response_kinds()[*kind];
            let mut sc = Scenario::one_conn(vec![rq.clone()], app.clone());
            sc.conns[0].cut = Some((*j, *how));
            sc.probe_after = true;
            (sc, format!("response-cut-{:?}:{}", how, name).to_lowercase())
        }
        Item::NotReading { kind, how } => {
            let (name, rq, app) = &response_kinds()[*kind];
            let mut sc = Scenario::one_conn(vec![rq.clone()], app.clone());
            sc.conns[0].capacity = Some(1024);
            sc.script.push((0, end_step(*how)));
            sc.script.push((0, Step::Settle));
            sc.probe_after = true;
            (sc, format!("client-not-reading-then-{:?}:{}", how, name).to_lowercase())
        }
        Item::GoneBeforeAnswer { kind, how } => {
            let (name, rq, app) = &response_kinds()[*kind];
            let mut app = app.clone();
            app.deferred = true;
            let mut sc = Scenario::one_conn(vec![rq.clone()], app);
            sc.script.push((0, end_step(*how)));
            sc.script.push((0, Step::Settle));
            sc.script.push((0, Step::AppGo));
            sc.script.push((0, Step::Settle));
            sc.probe_after = true;
            (sc, format!("client-gone-before-answer-{:?}:{}", how, name).to_lowercase())
        }
    }
}

fn judge(sc: &Scenario, obs: &Obs, res: &tiny_http::verif_rt::core::RunResult) -> Vec<Failure> {
    if sc.conns.len() > 1 {
        // many vanished clients: nobody panics, the run ends, the server serves a fresh
        // connection, and no worker stays behind (the server has been dropped and 6 s have
        // passed: only its 4 minimum workers may still be parked)
        let mut f = judge_robust(res, true);
        if res.end == tiny_http::verif_rt::core::End::Clean {
            if obs.probe_ok != Some(true) {
                f.push(Failure { clause: "server-unusable", desc: format!("after {} vanished clients a fresh connection was not accepted and served", sc.conns.len()) });
            }
            for (i, c) in obs.conns.iter().enumerate() {
                if i % 5 == 4 {
                    let url = format!("/witness{}", i);
                    let delivered = obs.reqs.iter().filter(|r| r.url == url).count();
                    let st = crate::httpparse::parse_stream(&c.received, &[false]);
                    let ok = st.error.is_none() && st.finals().len() == 1 && st.finals()[0].status == 200;
                    if delivered != 1 || !ok {
                        f.push(Failure {
                            clause: "witness-not-served",
                            desc: format!("ordinary client {} (GET {}) after {} earlier clients, most of which vanished: delivered {} time(s), received {:?}", i, url, i, delivered, crate::infra::esc_short(&c.received, 120)),
                        });
                        break;
                    }
                }
            }
            if obs.server_handles_end > 8 {
                f.push(Failure { clause: "sockets-not-released", desc: format!("{} server-side socket handles are still alive 6 s after {} clients vanished and the server was dropped", obs.server_handles_end, sc.conns.len()) });
            }
            if obs.live_threads_end > 8 {
                f.push(Failure { clause: "workers-stuck", desc: format!("{} threads are still alive 6 s after {} clients vanished and the server was dropped", obs.live_threads_end, sc.conns.len()) });
            }
        }
        return f;
    }
    let cs = client_stream(sc, 0);
    let orderly = cs.half_closed && !cs.closed && !cs.reset && sc.conns[0].cut.is_none() && sc.conns[0].capacity.is_none();
    let mut f;
    if orderly {
        // the client still listens: everything complete must be delivered and answered
        let (ff, _) = judge_conn(sc, obs, res, &JudgeOpts::default());
        f = ff;
    } else {
        f = judge_robust(res, true);
        if res.end == tiny_http::verif_rt::core::End::Clean {
            let m = model(&cs.bytes);
            let exp = m.delivered();
            let judged = !m.events.iter().any(|e| matches!(e, Expect::DontCare(_)));
            if judged && obs.reqs.len() > exp.len() {
                f.push(Failure {
                    clause: "incomplete-delivered",
                    desc: format!(
                        "{} requests delivered although only {} are complete in the {} bytes the client sent (delivered: {:?})",
                        obs.reqs.len(), exp.len(), cs.bytes.len(),
                        obs.reqs.iter().map(|r| format!("{} {}", r.method, r.url)).collect::<Vec<_>>()
                    ),
                });
            }
            for (i, (got, want)) in obs.reqs.iter().zip(exp.iter()).enumerate() {
                if got.method != want.method || got.url != want.target || got.headers.len() != want.headers.len() {
                    f.push(Failure {
                        clause: "incomplete-delivered",
                        desc: format!("delivered request {} is `{} {}`, the stream contains `{} {}`", i, got.method, got.url, want.method, want.target),
                    });
                }
            }
        }
    }
    for (i, r) in obs.reqs.iter().enumerate() {
        if r.finish.starts_with("respond:err") {
            f.push(Failure {
                clause: "respond-error",
                desc: format!("respond() for request {} returned {} instead of success", i, r.finish),
            });
        }
    }
    if res.end == tiny_http::verif_rt::core::End::Clean && obs.probe_ok != Some(true) {
        f.push(Failure {
            clause: "server-unusable",
            desc: "a fresh connection opened afterwards was not accepted and served".into(),
        });
    }
    f
}

fn run_item_impl(it: &Item, acc: &mut Acc, trace: bool) {
    let (sc, class) = scenario(it);
    let rc = RunCfg { trace, ..RunCfg::default() };
    let (obs, res) = run_scenario(&sc, &rc);
    acc.evals += 1;
    acc.nontrivial += 1;
    account_run(acc, &res);
    acc.outcomes.insert(obs_hash(&obs, &res));
    let fails = judge(&sc, &obs, &res);
    if trace {
        acc.notes.insert(format!("{}\n{}", res.trace.join("\n"), serde_json::to_string_pretty(&obs_json(&obs, &res)).unwrap()));
    }
    if fails.is_empty() {
        if acc.samples.len() < 3 {
            acc.sample(json!({"class": class, "scenario": scenario_json_short(&sc), "delivered": obs.reqs.len(), "probe_ok": obs.probe_ok}));
        }
        return;
    }
    let mut seen = std::collections::BTreeSet::new();
    for fl in fails {
        if fl.clause == "machinery" {
            acc.machinery_errors.push(fl.desc);
            continue;
        }
        let key = std_key(&fl, &class);
        if seen.insert(key.clone()) {
            acc.violation(&key, format!("[{}] {}", fl.clause, fl.desc), json!({"class": class, "scenario": scenario_json(&sc)}));
        }
    }
}

impl Check for C15 {
    fn id(&self) -> &'static str {
        "C15"
    }
    fn level(&self) -> &'static str {
        "fault_enumeration"
    }
    fn n_items(&self, tier: Tier) -> u64 {
        items(tier).len() as u64
    }
    fn chunk(&self, _tier: Tier) -> u64 {
        32
    }
    fn run_item(&self, idx: u64, tier: Tier, acc: &mut Acc) {
        run_item_impl(&items(tier)[idx as usize], acc, false);
    }
    fn rule(&self, tier: Tier) -> String {
        format!(
            "300 (thorough also 1100) clients one after the other, each sending a different prefix of a request (inside the head, inside a 1500-byte body, complete + pipelined GET) and then closing / resetting / half-closing, every fifth client an ordinary one whose GET must be delivered once and answered 200: no panic, a fresh connection is served afterwards, at most the minimum workers and no socket handles remain 6 s after the server is dropped; (a) for each of the {} corpus conversations (and a respond-without-reading variant): {} prefix length k x {{half-close, close, reset}} x {{server quiescent before the client ends, client ends at once}}; (b) for each response kind {:?}: client gone after exactly j response bytes, j = {}, by close and by reset; client not reading (1 KiB window) then closing/resetting; client gone before the application answers; {} fault scenarios, each followed by a fresh connection that must be served; oracle: nothing incomplete is delivered, after an orderly close everything complete is delivered and answered (reference model), respond() returns Ok, body reads end (no hang), no panic",
            the_corpus().len(), if full(tier) { "every" } else { "every syntactic-boundary (+-2) " },
            response_kinds().iter().map(|k| k.0).collect::<Vec<_>>(),
            if full(tier) { "0..2048, 4096, 5200 (70000-byte bodies: 9 offsets up to 70100)" } else { "0..2048 step 7, 1023..1025, 4096, 5200" },
            items(tier).len()
        )
    }
    fn replay(&self, replay: &Value, acc: &mut Acc) {
        let sc = scenario_from_json(&replay["scenario"]);
        let class = replay["class"].as_str().unwrap_or("").to_string();
        let rc = RunCfg { trace: true, ..RunCfg::default() };
        let (obs, res) = run_scenario(&sc, &rc);
        acc.notes.insert(format!("{}\n{}", res.trace.join("\n"), serde_json::to_string_pretty(&obs_json(&obs, &res)).unwrap()));
        for fl in judge(&sc, &obs, &res) {
            acc.violation(&std_key(&fl, &class), format!("[{}] {}", fl.clause, fl.desc), replay.clone());
        }
    }
}
