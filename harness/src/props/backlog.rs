//! C07, backlog family: the application is far behind.  One connection pipelines `n`
//! requests and two more connections send one each while nobody receives; then the
//! application drains the queue, answering everything; then every connection sends one more
//! request.  Every request sent must be delivered exactly once (nothing may stay behind
//! because of how long the queue once was or of which connections were waiting on it).

use crate::infra::*;
use crate::l2::*;
use crate::runner::*;
use serde_json::{json, Value};
use std::sync::atomic::{AtomicBool, Ordering};
use std::sync::{Arc, Mutex};
use std::time::Duration;
use tiny_http::verif_rt::core::{End, RunResult};
use tiny_http::verif_rt::explore::Mode;
use tiny_http::verif_rt::{ctl, thread};
use tiny_http::Response;

#[derive(Clone, Debug, Default)]
pub struct BObs {
    pub sent: Vec<String>,
    pub delivered: Vec<String>,
    pub queued_before_drain: Option<usize>,
    pub done: bool,
}

pub fn body(n: usize, singles: usize, obs: Arc<Mutex<BObs>>) {
    ctl::window(false);
    let srv = start_server();
    ctl::settle();
    let a = connect(&srv.addr, 0, &ConnSpec::default()).expect("connect");
    let others: Vec<_> = (0..singles).map(|i| connect(&srv.addr, i + 1, &ConnSpec::default()).expect("connect")).collect();
    let mut bytes = Vec::new();
    for i in 0..n {
        let url = format!("/a{}", i);
        bytes.extend_from_slice(format!("GET {} HTTP/1.1\r\nHost: t\r\n\r\n", url).as_bytes());
        obs.lock().unwrap().sent.push(url);
    }
    let _ = a.send(&bytes);
    ctl::settle();
    for (i, c) in others.iter().enumerate() {
        let url = format!("/s{}", i);
        let _ = c.send(format!("GET {} HTTP/1.1\r\nHost: t\r\n\r\n", url).as_bytes());
        obs.lock().unwrap().sent.push(url);
    }
    ctl::settle();
    obs.lock().unwrap().queued_before_drain = Some(srv.server.verif_queue_snapshot().0);
    // the application wakes up and drains
    let stop = Arc::new(AtomicBool::new(false));
    let app = {
        let (server, obs, stop) = (srv.server.clone(), obs.clone(), stop.clone());
        thread::spawn_named(Some("app".into()), move || loop {
            match server.recv_timeout(Duration::from_millis(200)) {
                Ok(Some(rq)) => {
                    obs.lock().unwrap().delivered.push(rq.url().to_string());
                    let _ = rq.respond(Response::from_string("ok"));
                }
                Ok(None) => {
                    if stop.load(Ordering::SeqCst) {
                        break;
                    }
                }
                Err(_) => break,
            }
        })
    };
    ctl::sleep(Duration::from_millis(1000));
    ctl::settle();
    // second round: one more request on every connection
    let _ = a.send(b"GET /a-again HTTP/1.1\r\nHost: t\r\n\r\n");
    obs.lock().unwrap().sent.push("/a-again".into());
    for (i, c) in others.iter().enumerate() {
        let url = format!("/s{}-again", i);
        let _ = c.send(format!("GET {} HTTP/1.1\r\nHost: t\r\n\r\n", url).as_bytes());
        obs.lock().unwrap().sent.push(url);
    }
    ctl::settle();
    ctl::sleep(Duration::from_millis(3000));
    ctl::settle();
    stop.store(true, Ordering::SeqCst);
    let _ = app.join();
    obs.lock().unwrap().done = true;
    drop(a);
    drop(others);
    ctl::settle();
    drop(srv);
    ctl::sleep(Duration::from_millis(11_000));
    ctl::settle();
}

pub fn judge(o: &BObs, res: &RunResult) -> Vec<(String, String)> {
    let mut f = Vec::new();
    for p in &res.panics {
        f.push(("panic".to_string(), format!("{} at {}", p.message, p.location)));
    }
    if res.end == End::Diverged {
        return vec![("machinery".into(), format!("{:?}", res.divergence))];
    }
    if !o.done {
        f.push(("hang".into(), format!("{:?} {:?}", res.end, res.blocked)));
        return f;
    }
    let mut want = o.sent.clone();
    want.sort();
    let mut got = o.delivered.clone();
    got.sort();
    if want != got {
        let missing: Vec<&String> = want.iter().filter(|u| !got.contains(u)).take(8).collect();
        let mut dup = got.clone();
        dup.dedup();
        f.push((
            "backlog:not-exactly-once".into(),
            format!(
                "{} requests sent, {} delivered ({} distinct) after a backlog of {:?} queued requests; not delivered: {:?}",
                want.len(), got.len(), dup.len(), o.queued_before_drain, missing
            ),
        ));
    }
    // per connection, in wire order
    let of_a: Vec<usize> = o.delivered.iter().filter_map(|u| u.strip_prefix("/a").and_then(|x| x.parse().ok())).collect();
    if of_a.windows(2).any(|w| w[0] > w[1]) {
        f.push(("backlog:order".into(), "the pipelined requests of one connection reached the single receiver out of wire order".into()));
    }
    f
}

pub fn sizes(tier: Tier) -> Vec<(usize, usize)> {
    if tier == Tier::Thorough {
        vec![(100, 2), (1030, 2), (5000, 2), (5000, 3), (20000, 2), (70000, 2)]
    } else {
        vec![(1030, 2), (5000, 2)]
    }
}

pub fn run_item(k: usize, tier: Tier, acc: &mut Acc) {
    let (n, singles) = sizes(tier)[k];
    let cfg = L2Cfg { mode: Mode::Strict, bound: Some(0), max_execs: 10, wall: Duration::from_secs(300), spurious_upto: None };
    let sc = json!({"seam": "Server", "family": "backlog", "pipelined": n, "single_request_connections": singles});
    // about 40 scheduling decisions per queued request
    crate::l2::STEP_CAP.store(2_000_000 + 200 * n as u64, std::sync::atomic::Ordering::Relaxed);
    explore_scenario::<BObs, _, _>(&cfg, acc, &sc, move |o| body(n, singles, o), |o, r| judge(o, r));
    crate::l2::STEP_CAP.store(0, std::sync::atomic::Ordering::Relaxed);
    acc.nontrivial += 1;
}

pub fn is_backlog_replay(replay: &Value) -> bool {
    replay["scenario"]["family"].as_str() == Some("backlog")
}

pub fn replay(replay: &Value, acc: &mut Acc) {
    let n = replay["scenario"]["pipelined"].as_u64().unwrap_or(100) as usize;
    let singles = replay["scenario"]["single_request_connections"].as_u64().unwrap_or(2) as usize;
    replay_schedule::<BObs, _, _>(acc, replay, move |o| body(n, singles, o), |o, r| judge(o, r));
}

pub const RULE: &str = "backlog family (default schedule): one connection pipelines 1030 / 5000 (thorough: 100 .. 70000) requests and two (three) more connections send one each while nobody receives; the application then drains the queue; then every connection sends one more request: every request sent is delivered exactly once, one connection's requests in wire order";
