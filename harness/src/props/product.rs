//! The feature product: ONE conversation shape whose ordinary features are crossed in full -
//! protocol version x method / body framing x Expect x Connection x how much the application
//! reads x how it finishes x whether the client withholds the body x position on the
//! connection.  Every feature is tested alone by some property's own check; seeded changes
//! (DESIGN 18, round 6) hid in combinations of two or three of them.  The product is judged
//! by the generic reference-model judge; each property that shares it reports only the
//! clauses that belong to it (so that a change is attributed to the property it breaks).

use crate::gen::*;
use crate::infra::*;
use crate::judge::*;
use crate::l1::*;
use crate::runner::*;
use serde_json::json;
use std::sync::OnceLock;

#[derive(Clone, Debug)]
pub struct PCase {
    pub label: String,
    pub sc: Scenario,
}

fn bodies() -> Vec<(&'static str, &'static str, Option<(String, Vec<u8>)>)> {
    // (label, method, Some((framing header lines, wire bytes of the body)))
    let cl = |n: usize| Some((format!("Content-Length: {}\r\n", n), payload(n)));
    vec![
        ("get", "GET", None),
        ("head", "HEAD", None),
        ("connect", "CONNECT", None),
        ("options", "OPTIONS", None),
        ("delete", "DELETE", None),
        ("purge", "PURGE", None),
        ("put-cl5", "PUT", cl(5)),
        ("cl5", "POST", cl(5)),
        ("cl1025", "POST", cl(1025)),
        ("cl3000", "POST", cl(3000)),
        ("chunked10", "POST", Some(("Transfer-Encoding: chunked\r\n".to_string(), chunked(&payload(10), &[4, 6], SizeSyntax::Lower)))),
        ("chunked1025", "POST", Some(("Transfer-Encoding: chunked\r\n".to_string(), chunked(&payload(1025), &[1000, 25], SizeSyntax::Upper)))),
    ]
}

fn reads(has_body: bool) -> Vec<(&'static str, ReadPlan)> {
    let mut v = vec![("read0", ReadPlan::None)];
    if has_body {
        v.push(("read3by7", ReadPlan::part(7, 3)));
        v.push(("readall", ReadPlan::all(4096)));
        v.push(("read_to_end", ReadPlan::ReadToEnd));
        v.push(("read_vectored", ReadPlan::OtherMethod { method: 0 }));
    }
    v
}

fn finishes() -> Vec<(&'static str, Finish)> {
    vec![
        ("respond", Finish::Respond(RespSpec::ok(3))),
        ("respond-undeclared300", Finish::Respond(RespSpec { status: 200, body_len: 300, declared: false, threshold: None, headers: 0 })),
        ("respond-declared40000", Finish::Respond(RespSpec { status: 200, body_len: 40000, declared: true, threshold: None, headers: 0 })),
        ("drop", Finish::Drop),
        ("writer", Finish::Writer { parts: raw_response_parts(1, 4, 2), flush: true }),
        ("writer-vectored", Finish::Writer { parts: { let mut p = vec![Vec::new()]; p.extend(raw_response_parts(1, 4, 2)); p }, flush: true }),
        ("writer-unused", Finish::Writer { parts: vec![], flush: false }),
        ("panic", Finish::Panic),
    ]
}

pub fn cases(tier: Tier) -> &'static Vec<PCase> {
    static Q: OnceLock<Vec<PCase>> = OnceLock::new();
    static T: OnceLock<Vec<PCase>> = OnceLock::new();
    let cell = if tier == Tier::Quick { &Q } else { &T };
    cell.get_or_init(|| {
        let mut v = Vec::new();
        let positions: Vec<usize> = if tier == Tier::Thorough { vec![0, 1, 70, 1030] } else { vec![0, 1, 70] };
        for (vl, ver, ka) in [("http11", "1.1", ""), ("http10ka", "1.0", "Connection: keep-alive\r\n")] {
            for (bl, method, body) in bodies() {
                for expect in [false, true] {
                    if expect && body.is_none() {
                        continue;
                    }
                    for close in [false, true] {
                        for (rl, read) in reads(body.is_some()) {
                            for (fl, fin) in finishes() {
                                for withhold in [false, true] {
                                    if withhold && !expect {
                                        continue;
                                    }
                                    if fl == "writer-unused" && expect && rl != "read0" {
                                        // an interim response that is due but no final one to
                                        // place it before: the judge cannot attribute it
                                        continue;
                                    }
                                    for &pos in &positions {
                                        if pos >= 70 && (rl == "read3by7" || fl == "writer-unused" || fl.starts_with("respond-")) && tier == Tier::Quick {
                                            continue;
                                        }
                                        let conn_line = if close { "Connection: close\r\n" } else { ka };
                                        let mut head = format!("{} /p HTTP/{}\r\nHost: t\r\n{}", method, ver, conn_line);
                                        if expect {
                                            head.push_str("Expect: 100-continue\r\n");
                                        }
                                        let wire_body = match &body {
                                            Some((framing, wire)) => {
                                                head.push_str(framing);
                                                wire.clone()
                                            }
                                            None => Vec::new(),
                                        };
                                        head.push_str("\r\n");
                                        let mut script: Vec<(usize, Step)> = Vec::new();
                                        let mut first = Vec::new();
                                        if pos == 1 {
                                            first.extend_from_slice(&get("/before"));
                                        } else if pos > 1 {
                                            script.push((0, Step::Send(history(pos))));
                                            script.push((0, Step::Settle));
                                        }
                                        first.extend_from_slice(head.as_bytes());
                                        if withhold {
                                            script.push((0, Step::Send(first)));
                                            script.push((0, Step::SendIfContinue(wire_body)));
                                            script.push((0, Step::Settle));
                                        } else {
                                            first.extend_from_slice(&wire_body);
                                            first.extend_from_slice(&get("/after"));
                                            script.push((0, Step::Send(first)));
                                            script.push((0, Step::Settle));
                                        }
                                        let mut plans = vec![ReqPlan::simple(); pos];
                                        plans.push(ReqPlan { read: read.clone(), finish: fin.clone() });
                                        plans.push(ReqPlan::simple());
                                        v.push(PCase {
                                            label: format!("{}/{}{}{}/{}/{}/{}/pos{}", vl, bl, if expect { "+expect" } else { "" }, if close { "+close" } else { "" }, rl, fl, if withhold { "withheld" } else { "sent" }, pos),
                                            sc: Scenario {
                                                conns: vec![ConnSpec::default()],
                                                script,
                                                app: AppProgram { plans, recv: RecvStyle::Recv, deferred: false, thread_per_request: false },
                                                probe_after: false,
                                                idle_after: false,
                                            },
                                        });
                                    }
                                }
                            }
                        }
                    }
                }
            }
        }
        // slow readers: the client's receive buffer holds `cap` bytes and is emptied only when the
        // server has nothing more to do, so that socket writes are accepted in part (short
        // writes) and block in between; large and small responses, declared and chunked, a
        // pipeline, a raw writer, a response head above 1 KiB
        let kinds: Vec<(&str, Vec<u8>, Vec<ReqPlan>, usize)> = vec![
            ("identity5000", get("/s"), vec![ReqPlan { read: ReadPlan::None, finish: Finish::Respond(RespSpec { status: 200, body_len: 5000, declared: true, threshold: None, headers: 0 }) }], 5400),
            ("chunked5000", get("/s"), vec![ReqPlan { read: ReadPlan::None, finish: Finish::Respond(RespSpec { status: 200, body_len: 5000, declared: false, threshold: None, headers: 0 }) }], 5500),
            ("identity70000", get("/s"), vec![ReqPlan { read: ReadPlan::None, finish: Finish::Respond(RespSpec { status: 200, body_len: 70000, declared: true, threshold: Some(usize::MAX), headers: 0 }) }], 70400),
            ("chunked70000", get("/s"), vec![ReqPlan { read: ReadPlan::None, finish: Finish::Respond(RespSpec { status: 200, body_len: 70000, declared: true, threshold: None, headers: 0 }) }], 70800),
            ("big-head", get("/s"), vec![ReqPlan { read: ReadPlan::None, finish: Finish::Respond(RespSpec { status: 200, body_len: 10, declared: true, threshold: None, headers: 40 }) }], 3000),
            ("pipeline3", [get("/s1"), get("/s2"), get("/s3")].concat(), vec![ReqPlan { read: ReadPlan::None, finish: Finish::Respond(RespSpec { status: 200, body_len: 1500, declared: true, threshold: None, headers: 0 }) }], 5400),
            ("raw-writer", get("/s"), vec![ReqPlan { read: ReadPlan::None, finish: Finish::Writer { parts: raw_response_parts(0, 3000, 3), flush: true } }], 3300),
        ];
        for (kl, req, plans, total) in kinds {
            for cap in [1usize, 7, 100, 1024, 4096] {
                let rounds = total / cap + 12;
                if rounds > 1200 {
                    continue;
                }
                let mut bytes = req.clone();
                bytes.extend_from_slice(&get("/after"));
                let mut script: Vec<(usize, Step)> = vec![(0, Step::Send(bytes))];
                for _ in 0..rounds {
                    script.push((0, Step::Settle));
                    script.push((0, Step::Drain));
                }
                script.push((0, Step::Settle));
                let mut ps = plans.clone();
                if kl == "pipeline3" {
                    ps = vec![ps[0].clone(), ps[0].clone(), ps[0].clone()];
                }
                ps.push(ReqPlan::simple());
                v.push(PCase {
                    label: format!("slow-reader/{}/cap{}/respond/sent/pos0", kl, cap),
                    sc: Scenario {
                        conns: vec![ConnSpec { capacity: Some(cap), ..ConnSpec::default() }],
                        script,
                        app: AppProgram { plans: ps, recv: RecvStyle::Recv, deferred: false, thread_per_request: false },
                        probe_after: false,
                        idle_after: false,
                    },
                });
            }
        }
        v
    })
}

pub fn n_items(tier: Tier) -> u64 {
    cases(tier).len() as u64
}

pub const RULE: &str = "feature product (shared, props/product.rs): version {1.1, 1.0 keep-alive} x {GET, HEAD, CONNECT, OPTIONS, DELETE, PURGE, PUT with Content-Length 5, POST with Content-Length 5 / 1025 / 3000, chunked 10 / 1025} x Expect: 100-continue or not x Connection: close or not x application reads {nothing, 3 bytes, all, to end-of-stream, all through read_vectored} x finishes by {respond with a small declared body / 300 bytes of undeclared length / 40000 declared bytes, drop, raw writer (write_all / write_vectored), unused raw writer, panic} x client {sends the body, withholds it until a 100 arrives} x position {first, second, after 70 (thorough: 1030) answered exchanges}, a GET following; plus slow readers (receive buffer of 1 / 7 / 100 / 1024 / 4096 bytes emptied only at quiescence: short and blocking socket writes) for identity and chunked responses of 5000 and 70000 bytes, a 1.9 KiB head, a pipeline of three, a raw writer; judged by the reference model, this property reporting the clauses";

/// Runs product item `idx` and reports the failures whose clause is in `clauses`.
pub fn run_item(idx: u64, tier: Tier, acc: &mut Acc, clauses: &[&str]) {
    let c = &cases(tier)[idx as usize];
    run_case(&c.sc, &c.label, acc, clauses);
}

pub fn run_case(sc: &Scenario, label: &str, acc: &mut Acc, clauses: &[&str]) {
    let j = run_judged(sc, &JudgeOpts::default(), false);
    acc.evals += 1;
    acc.nontrivial += 1;
    account_run(acc, &j.res);
    acc.outcomes.insert(obs_hash(&j.obs, &j.res));
    let mut seen = std::collections::BTreeSet::new();
    for fl in &j.failures {
        if fl.clause == "machinery" {
            acc.machinery_errors.push(fl.desc.clone());
            continue;
        }
        if !clauses.contains(&fl.clause) {
            continue;
        }
        // key: the clause and the features of the case without its position
        let feat = label.rsplit_once("/pos").map(|x| x.0).unwrap_or(label);
        let key = format!("product:{}:{}", fl.clause, feat.split('/').take(2).collect::<Vec<_>>().join("/"));
        if seen.insert(key.clone()) {
            acc.violation(&key, format!("[{}] {} (feature product case {})", fl.clause, fl.desc, label), json!({"product": true, "label": label, "scenario": scenario_json(sc)}));
        }
    }
    if j.failures.is_empty() && acc.samples.len() < 3 {
        acc.sample(json!({"product_case": label, "delivered": j.obs.reqs.len()}));
    }
}

pub fn is_product_replay(replay: &serde_json::Value) -> bool {
    replay["product"].as_bool() == Some(true)
}

pub fn replay(replay: &serde_json::Value, acc: &mut Acc, clauses: &[&str]) {
    let sc = scenario_from_json(&replay["scenario"]);
    let label = replay["label"].as_str().unwrap_or("").to_string();
    let j = run_judged(&sc, &JudgeOpts::default(), true);
    acc.notes.insert(format!("{}\n{}", j.res.trace.join("\n"), serde_json::to_string_pretty(&obs_json(&j.obs, &j.res)).unwrap()));
    run_case(&sc, &label, acc, clauses);
}
