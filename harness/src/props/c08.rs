//! C08 — connections are isolated: none waits for another, however many arrive at once.
//! Seam (a): the real TaskPool with tasks that start and then stay "open" (blocked on a
//! harness gate).  Seam (b): the real server with N keep-alive connections that each send
//! one request and stay open.

use crate::infra::*;
use crate::l2::*;
use crate::runner::*;
use serde_json::{json, Value};
use std::sync::{Arc, Mutex};
use std::sync::OnceLock;
use std::time::Duration;
use tiny_http::verif_api::TaskPool;
use tiny_http::verif_rt::core::{End, RunResult};
use tiny_http::verif_rt::explore::Mode;
use tiny_http::verif_rt::sync as vsync;
use tiny_http::verif_rt::{ctl, thread};

pub struct C08;

#[derive(Clone, Copy, Debug, PartialEq)]
pub enum Init {
    /// the pool was just created: its minimum workers are still starting
    Fresh,
    /// all minimum workers are idle
    Idle,
    /// k workers are busy with tasks that never finish
    Busy(usize),
    /// six tasks were served and finished: surplus workers sit in their timed wait
    SurplusIdle,
    /// as SurplusIdle, and 4.9999 s later: the surplus workers' idle timeout is due
    SurplusDue,
    /// as SurplusIdle, and 6 s later: the idle workers have retired
    SurplusRetired,
}

#[derive(Clone, Debug, PartialEq)]
pub struct PoolScenario {
    pub init: Init,
    pub bursts: Vec<usize>,
    /// the tasks of a burst finish before the next burst is dispatched
    pub finish_between: bool,
}

impl PoolScenario {
    fn to_json(&self) -> Value {
        json!({"seam": "TaskPool", "init": format!("{:?}", self.init), "bursts": self.bursts, "finish_between": self.finish_between})
    }
    fn from_json(v: &Value) -> PoolScenario {
        let i = v["init"].as_str().unwrap_or("Idle");
        let init = if i == "Fresh" {
            Init::Fresh
        } else if i == "Idle" {
            Init::Idle
        } else if i == "SurplusIdle" {
            Init::SurplusIdle
        } else if i == "SurplusDue" {
            Init::SurplusDue
        } else if i == "SurplusRetired" {
            Init::SurplusRetired
        } else {
            Init::Busy(i.trim_start_matches("Busy(").trim_end_matches(')').parse().unwrap_or(1))
        };
        PoolScenario {
            init,
            bursts: v["bursts"].as_array().map(|a| a.iter().map(|x| x.as_u64().unwrap_or(1) as usize).collect()).unwrap_or_default(),
            finish_between: v["finish_between"].as_bool().unwrap_or(false),
        }
    }
}

#[derive(Clone, Debug, Default)]
pub struct PoolObs {
    pub dispatched: usize,
    /// (task id, worker thread id) in start order
    pub started: Vec<(usize, usize)>,
    pub finished: Vec<usize>,
    /// (workers alive, counted idle, queued tasks) at the final quiescence
    pub snapshot: Option<(usize, usize, usize)>,
    pub must_be_running: Vec<usize>,
    /// the start log as it was at the final quiescence (before the harness lets tasks end)
    pub started_q: Vec<(usize, usize)>,
    pub done: bool,
}

struct Gate {
    open: vsync::Mutex<bool>,
    cv: vsync::Condvar,
}

impl Gate {
    fn new() -> Arc<Gate> {
        Arc::new(Gate {
            open: vsync::Mutex::new(false),
            cv: vsync::Condvar::new(),
        })
    }
    fn wait(&self) {
        let mut g = self.open.lock().unwrap();
        while !*g {
            g = self.cv.wait(g).unwrap();
        }
    }
    fn open(&self) {
        *self.open.lock().unwrap() = true;
        self.cv.notify_all();
    }
}

fn dispatch(pool: &TaskPool, id: usize, gate: Arc<Gate>, obs: &Arc<Mutex<PoolObs>>) {
    let o = obs.clone();
    obs.lock().unwrap().dispatched += 1;
    pool.spawn(Box::new(move || {
        o.lock().unwrap().started.push((id, thread::current_tid()));
        gate.wait();
        o.lock().unwrap().finished.push(id);
    }));
}

pub fn pool_body(sc: PoolScenario, obs: Arc<Mutex<PoolObs>>) {
    ctl::window(false);
    ctl::spurious(crate::l2::spurious_now()); // waits may return unnotified (std permits it): a 1-cost deviation
    let pool = TaskPool::new();
    let mut gates: Vec<Arc<Gate>> = Vec::new();
    let mut next = 0usize;
    let mut running: Vec<usize> = Vec::new();
    match sc.init {
        Init::Fresh => ctl::window(true),
        Init::Idle => ctl::settle(),
        Init::Busy(k) => {
            ctl::settle();
            for _ in 0..k {
                let g = Gate::new();
                dispatch(&pool, next, g.clone(), &obs);
                // the pool is given time between these arrivals
                ctl::settle();
                gates.push(g);
                running.push(next);
                next += 1;
            }
        }
        Init::SurplusIdle | Init::SurplusDue | Init::SurplusRetired => {
            ctl::settle();
            let mut gs = Vec::new();
            for _ in 0..6 {
                let g = Gate::new();
                dispatch(&pool, next, g.clone(), &obs);
                ctl::settle();
                gs.push(g);
                next += 1;
            }
            for g in &gs {
                g.open();
            }
            ctl::settle();
            if sc.init == Init::SurplusDue {
                ctl::sleep(Duration::from_nanos(4_999_900_000));
            }
            if sc.init == Init::SurplusRetired {
                ctl::sleep(Duration::from_millis(6000));
                ctl::settle();
            }
        }
    }
    ctl::window(true);
    for (bi, &n) in sc.bursts.iter().enumerate() {
        let mut burst_gates = Vec::new();
        for _ in 0..n {
            let g = Gate::new();
            dispatch(&pool, next, g.clone(), &obs);
            burst_gates.push((next, g));
            next += 1;
        }
        if bi + 1 < sc.bursts.len() {
            ctl::settle();
            if sc.finish_between {
                for (_, g) in &burst_gates {
                    g.open();
                }
                ctl::settle();
                for (_, g) in burst_gates {
                    gates.push(g);
                }
                continue;
            }
        }
        for (id, g) in burst_gates {
            running.push(id);
            gates.push(g);
        }
    }
    ctl::settle();
    ctl::window(false);
    let missing = {
        let o = obs.lock().unwrap();
        o.started.len() < o.dispatched
    };
    if missing {
        // grace as in the server seam: 3 virtual seconds, then look again
        ctl::sleep(Duration::from_millis(3000));
        ctl::settle();
    }
    {
        let snap = pool.verif_snapshot();
        let mut o = obs.lock().unwrap();
        o.snapshot = Some(snap);
        o.must_be_running = running;
        o.started_q = o.started.clone();
    }
    // orderly end: every "connection" closes, the pool is dropped, idle workers retire
    for g in &gates {
        g.open();
    }
    ctl::settle();
    drop(pool);
    ctl::sleep(Duration::from_millis(11_000));
    ctl::settle();
    obs.lock().unwrap().done = true;
}

pub fn pool_judge(o: &PoolObs, res: &RunResult) -> Vec<(String, String)> {
    let mut f = Vec::new();
    for p in &res.panics {
        f.push(("panic".to_string(), format!("{} at {}", p.message, p.location)));
    }
    if res.end == End::Diverged {
        return vec![("machinery".into(), format!("{:?}", res.divergence))];
    }
    let snap = match o.snapshot {
        Some(s) => s,
        None => {
            f.push(("hang".into(), format!("dispatching never finished: {:?}", res.blocked)));
            return f;
        }
    };
    let started: Vec<usize> = o.started_q.iter().map(|s| s.0).collect();
    let waiting: Vec<usize> = o.must_be_running.iter().copied().filter(|id| !started.contains(id)).collect();
    if !waiting.is_empty() {
        f.push((
            "task-starved".into(),
            format!(
                "task(s) {:?} of {} dispatched never started although nothing else can run: they wait for another task to end (pool: {} workers alive, {} counted idle, {} queued)",
                waiting, o.dispatched, snap.0, snap.1, snap.2
            ),
        ));
    }
    let mut ids = started.clone();
    ids.sort();
    let mut d = ids.clone();
    d.dedup();
    if d.len() != ids.len() {
        f.push(("task-ran-twice".into(), format!("start log {:?}", o.started)));
    }
    // one worker serves one open "connection" at a time
    let busy: Vec<usize> = o
        .started_q
        .iter()
        .filter(|(id, _)| o.must_be_running.contains(id))
        .map(|(_, w)| *w)
        .collect();
    let mut b = busy.clone();
    b.sort();
    b.dedup();
    if b.len() != busy.len() {
        f.push(("worker-shared".into(), format!("two open tasks run on the same worker: {:?}", o.started_q)));
    }
    if o.done && res.end != End::Clean {
        // not part of the statement (workers parked after shutdown): reported as a note only
    }
    if !o.done && f.is_empty() {
        f.push(("hang".into(), format!("shutdown of the harness never finished: {:?} {:?}", res.end, res.blocked)));
    }
    f
}

// ------------------------------------------------------------------------- server seam

#[derive(Clone, Debug, PartialEq)]
pub struct SrvScenario {
    pub n: usize,
    /// connections are opened in two bursts with a quiescent pause in between
    pub split: Option<usize>,
}

impl SrvScenario {
    fn to_json(&self) -> Value {
        json!({"seam": "Server", "connections": self.n, "second_burst_after": self.split})
    }
}

#[derive(Clone, Debug, Default)]
pub struct SrvObs {
    pub answered: Vec<bool>,
    pub delivered: usize,
    pub observed: bool,
    pub done: bool,
}

pub fn srv_body(sc: SrvScenario, obs: Arc<Mutex<SrvObs>>) {
    ctl::window(false);
    ctl::spurious(crate::l2::spurious_now()); // waits may return unnotified (std permits it): a 1-cost deviation
    let srv = start_server();
    ctl::settle();
    let shared: SharedObs = Arc::new(Mutex::new(Obs::default()));
    let app = {
        let (s, o) = (srv.server.clone(), shared.clone());
        thread::spawn_named(Some("app".into()), move || app_thread(s, AppProgram::simple(), o))
    };
    ctl::settle();
    ctl::window(true);
    let mut clients = Vec::new();
    for i in 0..sc.n {
        if Some(i) == sc.split {
            ctl::settle();
        }
        let c = connect(&srv.addr, i, &ConnSpec::default()).expect("connect");
        let _ = c.send(format!("GET /c{} HTTP/1.1\r\nHost: t\r\n\r\n", i).as_bytes());
        clients.push(c);
    }
    ctl::settle();
    ctl::window(false);
    {
        let mut seen: Vec<Vec<u8>> = vec![Vec::new(); clients.len()];
        let mut eofs = vec![false; clients.len()];
        let mut look = |seen: &mut Vec<Vec<u8>>, eofs: &mut Vec<bool>| -> Vec<bool> {
            let mut answered = Vec::new();
            for (i, c) in clients.iter().enumerate() {
                let d = c.drain();
                seen[i].extend(d.segments.concat());
                eofs[i] = eofs[i] || d.eof;
                let st = crate::httpparse::parse_stream(&seen[i], &[false]);
                answered.push(st.error.is_none() && st.finals().len() == 1 && st.finals()[0].status == 200 && !eofs[i]);
            }
            answered
        };
        let mut answered = look(&mut seen, &mut eofs);
        if answered.iter().any(|a| !a) {
            // no statement bounds how soon: an implementation may pace its accept loop
            // (legit-changes/H-change3).  Grace: 3 virtual seconds (below the idle period of
            // surplus workers), then look again; all other connections are still open.
            ctl::sleep(Duration::from_millis(3000));
            ctl::settle();
            answered = look(&mut seen, &mut eofs);
        }
        let mut o = obs.lock().unwrap();
        o.answered = answered;
        o.delivered = shared.lock().unwrap().reqs.len();
        o.observed = true;
    }
    srv.server.unblock();
    let _ = app.join();
    for c in clients.iter_mut() {
        c.close();
    }
    ctl::settle();
    drop(srv);
    ctl::sleep(Duration::from_millis(11_000));
    ctl::settle();
    obs.lock().unwrap().done = true;
}

pub fn srv_judge(o: &SrvObs, res: &RunResult) -> Vec<(String, String)> {
    let mut f = Vec::new();
    for p in &res.panics {
        f.push(("panic".to_string(), format!("{} at {}", p.message, p.location)));
    }
    if res.end == End::Diverged {
        return vec![("machinery".into(), format!("{:?}", res.divergence))];
    }
    if !o.observed {
        f.push(("hang".into(), format!("{:?}", res.blocked)));
        return f;
    }
    let starved: Vec<usize> = o.answered.iter().enumerate().filter(|(_, a)| !**a).map(|(i, _)| i).collect();
    if !starved.is_empty() {
        f.push((
            "connection-starved".into(),
            format!(
                "connection(s) {:?} of {} simultaneously open ones never got their response ({} requests delivered): they wait for another connection to close",
                starved,
                o.answered.len(),
                o.delivered
            ),
        ));
    }
    f
}

// ------------------------------------------------------------------------- enumeration

#[derive(Clone, Debug)]
enum Item {
    Pool(PoolScenario, Mode, u32),
    Srv(SrvScenario, Mode, u32),
}

fn items(tier: Tier) -> &'static Vec<Item> {
    static Q: OnceLock<Vec<Item>> = OnceLock::new();
    static T: OnceLock<Vec<Item>> = OnceLock::new();
    let cell = if tier == Tier::Quick { &Q } else { &T };
    cell.get_or_init(|| {
        let thorough = tier == Tier::Thorough;
        let mut v = Vec::new();
        let inits = [Init::Fresh, Init::Idle, Init::Busy(1), Init::Busy(3), Init::Busy(4), Init::SurplusIdle, Init::SurplusDue, Init::SurplusRetired];
        let mut burst_sets: Vec<(Vec<usize>, bool)> = Vec::new();
        for n in [1usize, 2, 3, 4, 5, 6, 8] {
            burst_sets.push((vec![n], false));
        }
        for (a, b) in [(1usize, 4usize), (4, 1), (2, 3), (4, 4), (3, 3)] {
            burst_sets.push((vec![a, b], false));
            burst_sets.push((vec![a, b], true));
        }
        for init in inits {
            for (bursts, fb) in &burst_sets {
                let total: usize = bursts.iter().sum();
                let bound = if thorough {
                    if total <= 2 { 3 } else if total <= 6 { 2 } else { 1 }
                } else if total <= 3 {
                    2
                } else if total <= 6 {
                    1
                } else {
                    0
                };
                v.push(Item::Pool(PoolScenario { init, bursts: bursts.clone(), finish_between: *fb }, Mode::Strict, bound));
            }
        }
        for n in [1usize, 4, 5, 6, 8] {
            let sb = if thorough && n <= 5 { 2 } else if n <= 5 || (thorough && n <= 8) { 1 } else { 0 };
            v.push(Item::Srv(SrvScenario { n, split: None }, Mode::Strict, sb));
            if n > 4 {
                v.push(Item::Srv(SrvScenario { n, split: Some(4) }, Mode::Strict, sb));
            }
        }
        v.push(Item::Srv(SrvScenario { n: 32, split: None }, Mode::Strict, 0));
        // magnitudes: far more simultaneous connections than any plausible fixed ceiling
        // (default schedule only)
        // (two bursts separated by quiescence: during one burst at the default schedule the new
        // workers have not run yet, so the pool's counters still show the old population)
        v.push(Item::Pool(PoolScenario { init: Init::Idle, bursts: vec![1100], finish_between: false }, Mode::Strict, 0));
        v.push(Item::Pool(PoolScenario { init: Init::Idle, bursts: vec![1100, 60], finish_between: false }, Mode::Strict, 0));
        v.push(Item::Srv(SrvScenario { n: 1100, split: None }, Mode::Strict, 0));
        v.push(Item::Srv(SrvScenario { n: 1160, split: Some(1100) }, Mode::Strict, 0));
        if thorough {
            v.push(Item::Pool(PoolScenario { init: Init::Idle, bursts: vec![4200], finish_between: false }, Mode::Strict, 0));
            v.push(Item::Pool(PoolScenario { init: Init::Fresh, bursts: vec![2100, 2100], finish_between: false }, Mode::Strict, 0));
            v.push(Item::Srv(SrvScenario { n: 2100, split: Some(1024) }, Mode::Strict, 0));
        }
        if thorough {
            v.push(Item::Srv(SrvScenario { n: 64, split: None }, Mode::Strict, 0));
            v.push(Item::Srv(SrvScenario { n: 64, split: Some(33) }, Mode::Strict, 0));
        }
        v
    })
}

fn cfg(mode: Mode, bound: u32, tier: Tier) -> L2Cfg {
    L2Cfg {
        mode,
        bound: Some(bound),
        max_execs: if tier == Tier::Thorough { 1_500_000 } else { 60_000 },
        wall: Duration::from_secs(if tier == Tier::Thorough { 420 } else { 35 }),
        spurious_upto: Some(if tier == Tier::Thorough { bound.saturating_sub(1) } else { bound }),
    }
}

impl Check for C08 {
    fn id(&self) -> &'static str {
        "C08"
    }
    fn level(&self) -> &'static str {
        "model_checking"
    }
    fn n_items(&self, tier: Tier) -> u64 {
        items(tier).len() as u64
    }
    fn run_item(&self, idx: u64, tier: Tier, acc: &mut Acc) {
        match &items(tier)[idx as usize] {
            Item::Pool(sc, mode, bound) => {
                let sc2 = sc.clone();
                let found = explore_scenario::<PoolObs, _, _>(&cfg(*mode, *bound, tier), acc, &sc.to_json(), move |o| pool_body(sc2.clone(), o), pool_judge);
                acc.nontrivial += 1;
                if !found {
                    acc.sample(json!({"scenario": sc.to_json(), "mode": mode_name(*mode), "bound": bound}));
                }
            }
            Item::Srv(sc, mode, bound) => {
                let sc2 = sc.clone();
                let found = explore_scenario::<SrvObs, _, _>(&cfg(*mode, *bound, tier), acc, &sc.to_json(), move |o| srv_body(sc2.clone(), o), srv_judge);
                acc.nontrivial += 1;
                if !found {
                    acc.sample(json!({"scenario": sc.to_json(), "mode": mode_name(*mode), "bound": bound}));
                }
            }
        }
    }
    fn rule(&self, tier: Tier) -> String {
        format!(
            "(a) real TaskPool: initial state {{fresh, all 4 idle, 1/3/4 workers busy for ever, surplus workers idle in their timed wait, surplus workers whose 5 s idle timeout is due, surplus workers retired after 6 s of idleness}} x dispatch pattern {{one burst of 1,2,3,4,5,6,8 tasks; two bursts (1,4) (4,1) (2,3) (4,4) (3,3) separated by quiescence, the first burst's tasks finishing in between or not}}; every task records its start and then stays open on a harness gate; (b) real Server with N in {{1,4,5,6,8,32,1100{}}} keep-alive connections (in one burst and as 1100 + 60; bursts of 1100 and 1100 + 60 tasks on the pool; thorough: 4200, 2 x 2100) sending one request each and staying open, in one burst or two; {} scenarios, explored for all schedules with at most {} deviations (strict costs; a spurious return from a condition-variable wait is one of the deviations), window = the burst; oracle at quiescence (or, if something is still missing then, 3 virtual seconds later: no statement bounds how soon): every dispatched task has started / every connection has its response while all others are still open, each task started once, one open task per worker; non-trivial = all",
            if tier == Tier::Thorough { ",64,2100" } else { "" }, items(tier).len(), if tier == Tier::Thorough { "3 (<= 2 tasks) / 2 (<= 6 tasks) / 1 (pool), 2 (server N<=5) / 1 (N<=8) / 0" } else { "2 (<= 3 tasks) / 1 (<= 6 tasks) / 0 (pool), 1 (server N<=5) / 0" }
        )
    }
    fn replay(&self, replay: &Value, acc: &mut Acc) {
        if replay["scenario"]["seam"].as_str() == Some("Server") {
            let sc = SrvScenario {
                n: replay["scenario"]["connections"].as_u64().unwrap_or(1) as usize,
                split: replay["scenario"]["second_burst_after"].as_u64().map(|x| x as usize),
            };
            replay_schedule::<SrvObs, _, _>(acc, replay, move |o| srv_body(sc.clone(), o), srv_judge);
        } else {
            let sc = PoolScenario::from_json(&replay["scenario"]);
            replay_schedule::<PoolObs, _, _>(acc, replay, move |o| pool_body(sc.clone(), o), pool_judge);
        }
    }
}
