//! C12 — connection persistence is decided correctly and the connection closes in order.

use crate::gen::*;
use crate::infra::*;
use crate::judge::*;
use crate::l1::*;
use crate::runner::*;
use serde_json::Value;
use std::sync::OnceLock;

pub struct C12;

/// This check is cheap: the quick tier already runs the full alphabet (what used to be the
/// thorough tier); `deep` marks the extras that only the thorough tier adds.
#[allow(dead_code)]
fn full(_t: Tier) -> bool {
    true
}
#[allow(dead_code)]
fn deep(t: Tier) -> bool {
    t == Tier::Thorough
}

#[derive(Clone, Debug)]
struct Case {
    class: String,
    bytes: Vec<u8>,
    half_close: bool,
    deferred: bool,
}

const CONN_VALUES: [Option<&str>; 16] = [
    None,
    Some("close"),
    Some("Close"),
    Some("CLOSE"),
    Some("keep-alive"),
    Some("Keep-Alive"),
    Some("upgrade"),
    Some("foo"),
    Some("foo, close"),
    Some("close, foo"),
    Some("keep-alive, foo"),
    Some("foo,bar"),
    Some("Upgrade"),
    Some("keep-alive, Upgrade"),
    Some("TE, close"),
    Some("TE, Keep-Alive"),
];

/// Long Connection values: filler options ("X-Opt-nn") and one decisive option (or none)
/// placed so that it starts at a given byte offset of the value, for offsets around 64, 128,
/// 256 and 1024 and at the very end of values of up to 4000 bytes.
fn long_conn_values() -> &'static Vec<&'static str> {
    static V: OnceLock<Vec<&'static str>> = OnceLock::new();
    V.get_or_init(|| {
        let mut out: Vec<&'static str> = Vec::new();
        let filler = |upto: usize| -> String {
            // options separated by ", " whose total length is exactly `upto` (>= 4) and ends in ", "
            let mut s = String::new();
            let mut k = 0;
            while s.len() + 12 <= upto {
                s.push_str(&format!("X-Opt-{:02}, ", k % 100));
                k += 1;
            }
            while s.len() + 3 <= upto {
                s.push_str("x, ");
            }
            // pad the last option so that the length is exact
            while s.len() < upto {
                let at = s.len() - 2;
                s.insert(at, 'x');
            }
            s
        };
        for decisive in ["close", "upgrade", "keep-alive", "Close", "zzz"] {
            for start in [52usize, 58, 59, 60, 61, 62, 63, 64, 65, 66, 120, 127, 128, 129, 250, 256, 257, 1020, 1024, 1025, 3990] {
                let v = format!("{}{}", filler(start), decisive);
                out.push(Box::leak(v.into_boxed_str()));
                if start <= 66 {
                    // and with further options behind it
                    let v = format!("{}{}, X-Tail-Option, X-Other", filler(start), decisive);
                    out.push(Box::leak(v.into_boxed_str()));
                }
            }
            // decisive option first, a long tail behind it
            let v = format!("{}, {}", decisive, filler(200).trim_end_matches(", "));
            out.push(Box::leak(v.into_boxed_str()));
        }
        out
    })
}

fn request(path: &str, version: &str, conn: Option<&str>) -> Vec<u8> {
    let mut s = format!("GET {} HTTP/{}\r\nHost: t\r\n", path, version);
    if let Some(c) = conn {
        s.push_str(&format!("Connection: {}\r\n", c));
    }
    s.push_str("\r\n");
    s.into_bytes()
}

fn cases(tier: Tier) -> &'static Vec<Case> {
    static Q: OnceLock<Vec<Case>> = OnceLock::new();
    static T: OnceLock<Vec<Case>> = OnceLock::new();
    let cell = if !full(tier) { &Q } else { &T };
    cell.get_or_init(|| {
        let mut v = Vec::new();
        let max_len = if deep(tier) { 4 } else { 3 };
        let tails: Vec<(&str, Vec<u8>)> = vec![
            ("nothing", vec![]),
            ("request", get("/after")),
            ("garbage", b"garbage-bytes\r\n\r\n".to_vec()),
        ];
        for version in ["1.0", "1.1"] {
            for cv in CONN_VALUES {
                for len in 1..=max_len {
                    for pos in 0..len {
                        for (tl, tail) in &tails {
                            for half_close in [false, true] {
                                for deferred in [false, true] {
                                    if !full(tier) && deferred && half_close {
                                        continue;
                                    }
                                    let mut bytes = Vec::new();
                                    for i in 0..len {
                                        if i == pos {
                                            bytes.extend_from_slice(&request(&format!("/v{}", i), version, cv));
                                        } else {
                                            bytes.extend_from_slice(&get(&format!("/k{}", i)));
                                        }
                                    }
                                    bytes.extend_from_slice(tail);
                                    v.push(Case {
                                        class: format!(
                                            "http{}-connection-{}",
                                            version,
                                            cv.map(|c| c.to_ascii_lowercase().replace(", ", "+").replace(',', "+")).unwrap_or_else(|| "absent".into())
                                        ),
                                        bytes,
                                        half_close,
                                        deferred,
                                    });
                                    let _ = tl;
                                }
                            }
                        }
                    }
                }
            }
        }
        // long Connection values: the decisive option anywhere in a value of up to 4000 bytes
        for version in ["1.0", "1.1"] {
            for cv in long_conn_values().iter() {
                for (len, pos) in [(1usize, 0usize), (2, 0), (2, 1)] {
                    for (tl, tail) in &tails {
                        if *tl == "garbage" {
                            continue;
                        }
                        let mut bytes = Vec::new();
                        for i in 0..len {
                            if i == pos {
                                bytes.extend_from_slice(&request(&format!("/v{}", i), version, Some(cv)));
                            } else {
                                bytes.extend_from_slice(&get(&format!("/k{}", i)));
                            }
                        }
                        bytes.extend_from_slice(tail);
                        v.push(Case { class: format!("http{}-long-connection-value", version), bytes, half_close: false, deferred: false });
                    }
                }
            }
        }
        // history family: EVERY pipeline of 2..3 (thorough: 4) requests drawn from a small
        // per-request alphabet, so that the decision for one request is exercised after
        // every kind of predecessor (a persistence decision must not depend on history)
        let _ = ();
        const ATOMS: [(&str, Option<&str>); 10] = [
            ("2.0", None),
            ("2.0", Some("close")),
            ("1.1", None),
            ("1.1", Some("keep-alive")),
            ("1.1", Some("close")),
            ("1.0", None),
            ("1.0", Some("keep-alive")),
            ("1.0", Some("Keep-Alive, foo")),
            ("1.0", Some("te")),
            ("1.0", Some("close")),
        ];
        let hist_len = if deep(tier) { 4 } else { 3 };
        for len in 2..=hist_len {
            let total = ATOMS.len().pow(len as u32);
            for code in 0..total {
                let mut c = code;
                let mut bytes = Vec::new();
                let mut class = String::from("history");
                for i in 0..len {
                    let (ver, cv) = ATOMS[c % ATOMS.len()];
                    c /= ATOMS.len();
                    bytes.extend_from_slice(&request(&format!("/h{}", i), ver, cv));
                    if i + 1 == len {
                        // class by the first request that ends the connection is computed
                        // by the reference model at replay time; here: by the last atom
                        class = format!("history-last-http{}-{}", ver, cv.map(|c| c.to_ascii_lowercase().replace(", ", "+")).unwrap_or_else(|| "absent".into()));
                    }
                }
                for (_, tail) in &tails {
                    if len == 4 && tail.is_empty() {
                        continue;
                    }
                    for half_close in [false, true] {
                        let mut b = bytes.clone();
                        b.extend_from_slice(tail);
                        v.push(Case { class: class.clone(), bytes: b, half_close, deferred: false });
                    }
                }
            }
        }
        // headers that look relevant but are not (Proxy-Connection, Keep-Alive, Upgrade without
        // Connection: upgrade, ...): the decision is that of the same request without them
        for (ver, cv) in [("1.1", None), ("1.1", Some("close")), ("1.1", Some("keep-alive")), ("1.0", None), ("1.0", Some("keep-alive")), ("1.0", Some("close"))] {
            for k in 1..NOISE_HEADERS.len() {
                for noise_first in [false, true] {
                    for before in 0..2 {
                        for (_, tail) in &tails {
                            let mut b = Vec::new();
                            if before == 1 {
                                b.extend_from_slice(&get("/k0"));
                            }
                            let conn = cv.map(|c| format!("Connection: {}\r\n", c)).unwrap_or_default();
                            let lines = if noise_first { format!("{}{}", noise_lines(k), conn) } else { format!("{}{}", conn, noise_lines(k)) };
                            b.extend_from_slice(format!("GET /n HTTP/{}\r\nHost: t\r\n{}\r\n", ver, lines).as_bytes());
                            b.extend_from_slice(tail);
                            v.push(Case {
                                class: format!("noise-headers:http{}-{}", ver, cv.unwrap_or("absent")),
                                bytes: b,
                                half_close: false,
                                deferred: false,
                            });
                        }
                    }
                }
            }
        }
        // the connection-ending request has a body of which the client has sent only a part (or
        // nothing) and the application answers without reading it: the answer is the last
        // response, so the server closes its sending side at once - the client, which is
        // waiting for that end-of-stream, must not have to give up first
        for (ver, cv) in [("1.1", Some("close")), ("1.1", Some("keep-alive, close")), ("1.0", None), ("1.0", Some("close"))] {
            let conn = cv.map(|c| format!("Connection: {}\r\n", c)).unwrap_or_default();
            let bodies: Vec<(&str, String, Vec<u8>)> = vec![
                ("cl200000-sent800", "Content-Length: 200000\r\n".into(), payload(800)),
                ("cl200000-sent0", "Content-Length: 200000\r\n".into(), vec![]),
                ("cl70000-sent1025", "Content-Length: 70000\r\n".into(), payload(1025)),
                ("chunked-unterminated", "Transfer-Encoding: chunked\r\n".into(), b"5\r\nhello\r\n".to_vec()),
                ("expect-cl5-sent0", "Expect: 100-continue\r\nContent-Length: 5\r\n".into(), vec![]),
            ];
            for (bl, framing, sent) in bodies {
                for before in 0..2 {
                    let mut b = Vec::new();
                    for i in 0..before {
                        b.extend_from_slice(&get(&format!("/k{}", i)));
                    }
                    b.extend_from_slice(format!("POST /e HTTP/{}\r\nHost: t\r\n{}{}\r\n", ver, conn, framing).as_bytes());
                    b.extend_from_slice(&sent);
                    v.push(Case { class: format!("ending-request-body-not-sent:{}", bl), bytes: b, half_close: false, deferred: false });
                }
            }
        }
        // the decision for each atom after a long history of plain exchanges (a connection must
        // not be ended, nor kept, because of how much it has carried)
        for h in history_lengths(deep(tier)) {
            for (ver, cv) in ATOMS {
                for (_, tail) in &tails {
                    let mut b = history(h);
                    b.extend_from_slice(&request("/last", ver, cv));
                    b.extend_from_slice(tail);
                    v.push(Case {
                        class: format!("after-history-http{}-{}", ver, cv.map(|c| c.to_ascii_lowercase().replace(", ", "+")).unwrap_or_else(|| "absent".into())),
                        bytes: b,
                        half_close: false,
                        deferred: false,
                    });
                }
            }
        }
        v
    })
}

fn scenario(c: &Case) -> Scenario {
    let mut sc = Scenario::one_conn(
        split_history(&c.bytes),
        AppProgram::uniform(ReqPlan {
            read: ReadPlan::None,
            finish: Finish::Respond(RespSpec::ok(2)),
        }),
    );
    if c.half_close {
        sc.script.push((0, Step::CloseWrite));
        sc.script.push((0, Step::Settle));
    }
    if c.deferred {
        sc.app.deferred = true;
        sc.script.push((0, Step::AppGo));
        sc.script.push((0, Step::Settle));
    }
    sc
}

fn class_from_stream(bytes: &[u8]) -> String {
    let m = crate::refmodel::model(bytes);
    for r in m.delivered() {
        let cv = r.headers.iter().find(|(n, _)| n.eq_ignore_ascii_case("connection")).map(|(_, v)| v.clone());
        if r.version == (1, 0) || cv.is_some() {
            return format!(
                "http{}.{}-connection-{}",
                r.version.0,
                r.version.1,
                cv.map(|c| c.to_ascii_lowercase().replace(", ", "+").replace(',', "+")).unwrap_or_else(|| "absent".into())
            );
        }
    }
    "http1.1-connection-absent".into()
}

/// clauses of the shared feature product (props/product.rs) that belong to this property
const PRODUCT_CLAUSES: &[&str] = &["no-close", "early-close"];

impl Check for C12 {
    fn id(&self) -> &'static str {
        "C12"
    }
    fn level(&self) -> &'static str {
        "exploration"
    }
    fn n_items(&self, tier: Tier) -> u64 {
        cases(tier).len() as u64 + crate::props::product::n_items(tier)
    }
    fn chunk(&self, _tier: Tier) -> u64 {
        16
    }
    fn run_item(&self, idx: u64, tier: Tier, acc: &mut Acc) {
        let base = cases(tier).len() as u64;
        if idx >= base {
            crate::props::product::run_item(idx - base, tier, acc, PRODUCT_CLAUSES);
            return;
        }
        let c = &cases(tier)[idx as usize];
        let sc = scenario(c);
        let class = c.class.clone();
        check_scenario(&sc, acc, &JudgeOpts::default(), true, &|f, _| std_key(f, &class), &|_| vec![]);
    }
    fn rule(&self, tier: Tier) -> String {
        let own = format!(
            "version {{1.0, 1.1}} x Connection header {:?} at every position of a pipeline of 1..{} requests x following bytes {{nothing, a further complete request, garbage}} x client half-closing afterwards or not x application answering immediately or on a later signal; {} conversations; token-based reference model: requests after the connection-ending one are never delivered, the client sees exactly the answers of the received requests then end-of-stream; otherwise the connection stays open; after a client half-close everything received is answered, then end-of-stream || long Connection values (up to 4000 bytes of filler options with close / upgrade / keep-alive / Close / none starting at byte 52..66, 120..129, 250..257, 1020..1025, 3990 of the value, with or without further options behind, or first with 200 bytes behind) x version x position in a pipeline of 1..2 x followed by a request or nothing || history family: EVERY pipeline of 2..{} requests over 10 (version, Connection) atoms {{2.0 absent/close (refused with 505, the connection goes on), 1.1 absent/keep-alive/close, 1.0 absent/keep-alive/'Keep-Alive, foo'/te/close}} x the same following bytes x half-close or not (the decision for a request is exercised after every kind of predecessor) || version {{1.0, 1.1}} x Connection {{absent, close, keep-alive}} x 7 sets of headers that look relevant but are not (Proxy-Connection, Keep-Alive, Upgrade without Connection: upgrade, X-Connection, Content-Encoding: chunked, Trailer, Range, Via ...) before or after the Connection header: the decision must be that of the request without them || connection-ending requests {{1.1 close, 1.0}} whose body (Content-Length 70000 / 200000, chunked, Expect) the client has sent only in part or not at all, answered without reading: end-of-stream must follow the answer while the client is still waiting || each atom after a history of 64 / 100 / 1024 (thorough: 19 lengths from 63 to 4097) answered exchanges x the same following bytes",
            CONN_VALUES, if deep(tier) { 4 } else { 3 }, cases(tier).len(), if deep(tier) { 4 } else { 3 }
        );
        format!("{} || {} {:?}", own, crate::props::product::RULE, PRODUCT_CLAUSES)
    }
    fn assumptions(&self) -> Vec<String> {
        vec!["Connection tokens that merely contain close/upgrade/keep-alive as a substring of another token, and repeated Connection headers, are not generated (not pinned down by the statement)".into()]
    }
    fn replay(&self, replay: &Value, acc: &mut Acc) {
        if crate::props::product::is_product_replay(replay) {
            crate::props::product::replay(replay, acc, PRODUCT_CLAUSES);
            return;
        }
        let sc = scenario_from_json(&replay["scenario"]);
        let class = class_from_stream(&client_stream(&sc, 0).bytes);
        replay_scenario(replay, acc, &JudgeOpts::default(), &|f, _| std_key(f, &class), &|_| vec![]);
    }
}
