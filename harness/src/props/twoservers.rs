//! C07, several servers in one process: server A and server B live side by side; A serves a
//! request and is dropped; B must go on delivering every request sent to it (on connections
//! opened before and after A went away), exactly once each.

use crate::infra::*;
use crate::l2::*;
use crate::runner::*;
use serde_json::{json, Value};
use std::sync::{Arc, Mutex};
use std::time::Duration;
use tiny_http::verif_rt::core::{End, RunResult};
use tiny_http::verif_rt::explore::Mode;
use tiny_http::verif_rt::{ctl, thread};
use tiny_http::Response;

#[derive(Clone, Debug, Default)]
pub struct TObs {
    pub sent_to_b: Vec<String>,
    pub delivered_by_b: Vec<String>,
    pub answered: usize,
    pub refused_connects: usize,
    pub done: bool,
}

fn exchange(addr: &tiny_http::verif_rt::net::MemAddr, idx: usize, url: &str, obs: &Arc<Mutex<TObs>>) -> Option<tiny_http::verif_rt::net::ClientEnd> {
    match connect(addr, idx, &ConnSpec::default()) {
        Ok(c) => {
            let _ = c.send(format!("GET {} HTTP/1.1\r\nHost: t\r\n\r\n", url).as_bytes());
            obs.lock().unwrap().sent_to_b.push(url.to_string());
            Some(c)
        }
        Err(_) => {
            obs.lock().unwrap().refused_connects += 1;
            None
        }
    }
}

/// `order`: 0 = B created after A, 1 = B created before A; `after`: connections to B after A is gone
pub fn body(order: usize, after: usize, obs: Arc<Mutex<TObs>>) {
    ctl::window(false);
    let (a, b) = if order == 0 {
        let a = start_server();
        let b = start_server();
        (a, b)
    } else {
        let b = start_server();
        let a = start_server();
        (a, b)
    };
    ctl::settle();
    let app_b = {
        let (server, obs) = (b.server.clone(), obs.clone());
        thread::spawn_named(Some("app-b".into()), move || loop {
            match server.recv() {
                Ok(rq) => {
                    obs.lock().unwrap().delivered_by_b.push(rq.url().to_string());
                    let _ = rq.respond(Response::from_string("b"));
                }
                Err(_) => break,
            }
        })
    };
    // both serve one request; B keeps one connection open across A's end
    let ca = connect(&a.addr, 0, &ConnSpec::default()).expect("connect a");
    let _ = ca.send(b"GET /a0 HTTP/1.1\r\nHost: t\r\n\r\n");
    ctl::settle();
    if let Ok(rq) = a.server.recv_timeout(Duration::from_millis(100)) {
        if let Some(rq) = rq {
            let _ = rq.respond(Response::from_string("a"));
        }
    }
    let mut clients = Vec::new();
    if let Some(c) = exchange(&b.addr, 1, "/b-before", &obs) {
        clients.push(c);
    }
    ctl::settle();
    drop(ca);
    ctl::window(true);
    drop(a);
    ctl::settle();
    ctl::window(false);
    // B goes on: a request on the connection opened before, then fresh connections one by one
    if let Some(c) = clients.first() {
        let _ = c.send(b"GET /b-kept HTTP/1.1\r\nHost: t\r\n\r\n");
        obs.lock().unwrap().sent_to_b.push("/b-kept".into());
    }
    ctl::settle();
    for k in 0..after {
        if let Some(c) = exchange(&b.addr, 10 + k, &format!("/b-after{}", k), &obs) {
            clients.push(c);
        }
        ctl::settle();
    }
    ctl::sleep(Duration::from_millis(2000));
    ctl::settle();
    let mut answered = 0;
    for c in &clients {
        let d = c.drain();
        let st = crate::httpparse::parse_stream(&d.segments.concat(), &[]);
        answered += st.finals().iter().filter(|m| m.status == 200).count();
    }
    obs.lock().unwrap().answered = answered;
    b.server.unblock();
    let _ = app_b.join();
    obs.lock().unwrap().done = true;
    drop(clients);
    ctl::settle();
    drop(b);
    ctl::sleep(Duration::from_millis(11_000));
    ctl::settle();
}

pub fn judge(o: &TObs, res: &RunResult) -> Vec<(String, String)> {
    let mut f = Vec::new();
    for p in &res.panics {
        f.push(("panic".to_string(), format!("{} at {}", p.message, p.location)));
    }
    if res.end == End::Diverged {
        return vec![("machinery".into(), format!("{:?}", res.divergence))];
    }
    if !o.done {
        f.push(("hang".into(), format!("{:?} {:?}", res.end, res.blocked)));
        return f;
    }
    let mut want = o.sent_to_b.clone();
    want.sort();
    let mut got = o.delivered_by_b.clone();
    got.sort();
    if o.refused_connects > 0 || want != got || o.answered != want.len() {
        f.push((
            "two-servers:survivor-not-served".into(),
            format!(
                "server B was never dropped, yet after server A of the same process had been dropped: {} connection attempt(s) to B refused, requests sent to B {:?}, delivered {:?}, answered {}",
                o.refused_connects, want, got, o.answered
            ),
        ));
    }
    f
}

pub fn cases(tier: Tier) -> Vec<(usize, usize)> {
    let mut v = vec![(0, 3), (1, 3)];
    if tier == Tier::Thorough {
        v.push((0, 8));
        v.push((1, 8));
    }
    v
}

pub fn run_item(k: usize, tier: Tier, acc: &mut Acc) {
    let (order, after) = cases(tier)[k];
    let cfg = L2Cfg { mode: Mode::Strict, bound: Some(if tier == Tier::Thorough { 2 } else { 1 }), max_execs: 200_000, wall: Duration::from_secs(300), spurious_upto: None };
    let sc = json!({"seam": "Server", "family": "two-servers", "b_created_first": order == 1, "connections_to_b_after_a_is_gone": after});
    explore_scenario::<TObs, _, _>(&cfg, acc, &sc, move |o| body(order, after, o), |o, r| judge(o, r));
    acc.nontrivial += 1;
}

pub fn is_replay(replay: &Value) -> bool {
    replay["scenario"]["family"].as_str() == Some("two-servers")
}

pub fn replay(replay: &Value, acc: &mut Acc) {
    let order = if replay["scenario"]["b_created_first"].as_bool() == Some(true) { 1 } else { 0 };
    let after = replay["scenario"]["connections_to_b_after_a_is_gone"].as_u64().unwrap_or(3) as usize;
    replay_schedule::<TObs, _, _>(acc, replay, move |o| body(order, after, o), |o, r| judge(o, r));
}

pub const RULE: &str = "two servers in one process: A and B (created in either order) serve a request each, A is dropped (all schedules around the drop with at most 1, thorough 2, deviations), then B gets a request on a connection opened before and 3 (thorough 8) fresh connections one after the other: every request sent to B is delivered once and answered, no connection to B is refused";
