//! C07 / C17 at the server seam: the real `Server` with P connections sending pipelined
//! requests and C application threads using recv / recv_timeout / try_recv / the
//! incoming_requests iterator, plus unblock calls; schedules explored in the window that
//! opens when the clients send.

use crate::infra::*;
use crate::l2::*;
use crate::runner::*;
use serde_json::{json, Value};
use std::sync::{Arc, Mutex};
use std::time::Duration;
use tiny_http::verif_rt::core::{End, RunResult};
use tiny_http::verif_rt::explore::Mode;
use tiny_http::verif_rt::{ctl, thread};
use tiny_http::Response;

pub const T_MS: u64 = 40;

#[derive(Clone, Copy, Debug, PartialEq, Eq)]
pub enum RCall {
    Recv,
    RecvTimeout,
    TryRecv,
    /// `server.incoming_requests().next()`: a fresh iterator for every call
    IterNext,
    /// `it.next()` on ONE iterator object kept by the receiver thread for all its calls
    IterKept,
}

#[derive(Clone, Debug, PartialEq)]
pub struct SScenario {
    pub receivers: Vec<Vec<RCall>>,
    /// requests pipelined on each connection
    pub conns: Vec<usize>,
    pub unblocks: usize,
    pub receivers_first: bool,
}

impl SScenario {
    pub fn to_json(&self) -> Value {
        json!({"seam": "Server", "receivers": self.receivers.iter().map(|r| r.iter().map(|c| format!("{:?}", c)).collect::<Vec<_>>()).collect::<Vec<_>>(),
               "connections": self.conns, "unblocks": self.unblocks, "receivers_first": self.receivers_first, "T_ms": T_MS})
    }
    pub fn from_json(v: &Value) -> SScenario {
        let call = |s: &str| match s {
            "Recv" => RCall::Recv,
            "RecvTimeout" => RCall::RecvTimeout,
            "TryRecv" => RCall::TryRecv,
            "IterKept" => RCall::IterKept,
            _ => RCall::IterNext,
        };
        SScenario {
            receivers: v["receivers"].as_array().map(|a| a.iter().map(|r| r.as_array().map(|x| x.iter().map(|c| call(c.as_str().unwrap_or(""))).collect()).unwrap_or_default()).collect()).unwrap_or_default(),
            conns: v["connections"].as_array().map(|a| a.iter().map(|x| x.as_u64().unwrap_or(1) as usize).collect()).unwrap_or_default(),
            unblocks: v["unblocks"].as_u64().unwrap_or(0) as usize,
            receivers_first: v["receivers_first"].as_bool().unwrap_or(true),
        }
    }
}

#[derive(Clone, Debug, Default)]
pub struct SCall {
    pub receiver: usize,
    pub idx: usize,
    pub kind: String,
    pub entered_ns: u64,
    /// (url of the request obtained or None, error?, time, condvar waits entered)
    pub returned: Option<(Option<String>, bool, u64, u64)>,
}

#[derive(Clone, Debug, Default)]
pub struct SObs {
    pub calls: Vec<SCall>,
    pub sent: Vec<String>,
    pub q1: Option<(usize, usize)>,
    pub blocked1: Vec<(usize, usize, String)>,
    pub q2: Option<(usize, usize)>,
    pub blocked2: Vec<(usize, usize, String)>,
    /// calls that had returned when the second quiescence was reached
    pub returned2: Vec<(usize, usize)>,
    pub finished: bool,
}

fn blocked(o: &SObs) -> Vec<(usize, usize, String)> {
    o.calls.iter().filter(|c| c.returned.is_none()).map(|c| (c.receiver, c.idx, c.kind.clone())).collect()
}

pub fn body(sc: SScenario, obs: Arc<Mutex<SObs>>) {
    ctl::window(false);
    ctl::spurious(crate::l2::spurious_now()); // waits may return unnotified (std permits it): a 1-cost deviation
    let srv = start_server();
    ctl::settle();
    let mut hs = Vec::new();
    for (ri, prog) in sc.receivers.iter().enumerate() {
        let (server, obs, prog) = (srv.server.clone(), obs.clone(), prog.clone());
        hs.push(thread::spawn_named(Some(format!("receiver{}", ri)), move || {
            let mut kept = server.incoming_requests();
            for (k, call) in prog.iter().enumerate() {
                let slot = {
                    let mut o = obs.lock().unwrap();
                    o.calls.push(SCall { receiver: ri, idx: k, kind: format!("{:?}", call), entered_ns: ctl::clock_ns(), returned: None });
                    o.calls.len() - 1
                };
                let w0 = ctl::my_blocking_ops();
                let (rq, err) = match call {
                    RCall::Recv => match server.recv() {
                        Ok(r) => (Some(r), false),
                        Err(_) => (None, true),
                    },
                    RCall::RecvTimeout => match server.recv_timeout(Duration::from_millis(T_MS)) {
                        Ok(r) => (r, false),
                        Err(_) => (None, true),
                    },
                    RCall::TryRecv => match server.try_recv() {
                        Ok(r) => (r, false),
                        Err(_) => (None, true),
                    },
                    RCall::IterNext => (server.incoming_requests().next(), false),
                    RCall::IterKept => (kept.next(), false),
                };
                let w1 = ctl::my_blocking_ops();
                let url = rq.as_ref().map(|r| r.url().to_string());
                obs.lock().unwrap().calls[slot].returned = Some((url, err, ctl::clock_ns(), w1 - w0));
                if let Some(r) = rq {
                    let _ = r.respond(Response::from_string("ok"));
                }
            }
        }));
    }
    if sc.receivers_first {
        ctl::settle();
    }
    ctl::window(true);
    let mut clients = Vec::new();
    for (ci, n) in sc.conns.iter().enumerate() {
        let c = connect(&srv.addr, ci, &ConnSpec::default()).expect("connect");
        let mut bytes = Vec::new();
        for i in 0..*n {
            let url = format!("/c{}r{}", ci, i);
            bytes.extend_from_slice(format!("GET {} HTTP/1.1\r\nHost: t\r\n\r\n", url).as_bytes());
            obs.lock().unwrap().sent.push(url);
        }
        let _ = c.send(&bytes);
        clients.push(c);
    }
    for _ in 0..sc.unblocks {
        srv.server.unblock();
    }
    ctl::settle();
    ctl::window(false);
    {
        let snap = srv.server.verif_queue_snapshot();
        let mut o = obs.lock().unwrap();
        o.q1 = Some(snap);
        o.blocked1 = blocked(&o);
    }
    ctl::sleep(Duration::from_millis(3 * T_MS));
    ctl::settle();
    {
        let snap = srv.server.verif_queue_snapshot();
        let mut o = obs.lock().unwrap();
        o.q2 = Some(snap);
        o.blocked2 = blocked(&o);
        o.returned2 = o.calls.iter().filter(|c| c.returned.is_some()).map(|c| (c.receiver, c.idx)).collect();
    }
    // release whoever is still (legitimately) blocked: one unblock per remaining call
    let total_calls: usize = sc.receivers.iter().map(|r| r.len()).sum();
    for _ in 0..=total_calls {
        if blocked(&obs.lock().unwrap()).is_empty() {
            break;
        }
        srv.server.unblock();
        ctl::settle();
    }
    for h in hs {
        let _ = h.join();
    }
    obs.lock().unwrap().finished = true;
    for c in clients.iter_mut() {
        c.close();
    }
    ctl::settle();
    drop(srv);
    ctl::sleep(Duration::from_millis(11_000));
    ctl::settle();
}

pub fn judge(sc: &SScenario, o: &SObs, res: &RunResult, which: &str) -> Vec<(String, String)> {
    let mut f = Vec::new();
    for p in &res.panics {
        f.push(("panic".to_string(), format!("{} at {}", p.message, p.location)));
    }
    if res.end == End::Diverged {
        return vec![("machinery".into(), format!("{:?}", res.divergence))];
    }
    let (q1, q2) = match (o.q1, o.q2) {
        (Some(a), Some(b)) => (a, b),
        _ => {
            f.push(("hang".into(), format!("never reached quiescence: {:?}", res.blocked)));
            return f;
        }
    };
    let before_q2 = |c: &&SCall| o.returned2.iter().any(|b| b.0 == c.receiver && b.1 == c.idx);
    let got: Vec<String> = o.calls.iter().filter(before_q2).filter_map(|c| c.returned.as_ref().and_then(|r| r.0.clone())).collect();
    if which == "C07" {
        if q1.0 > 0 && !o.blocked1.is_empty() {
            f.push((
                "lost-wakeup:server".into(),
                format!("{} request(s) queued while receiver call(s) {:?} stay blocked", q1.0, o.blocked1),
            ));
        }
        let mut s = got.clone();
        s.sort();
        let mut d = s.clone();
        d.dedup();
        if d.len() != s.len() {
            f.push(("duplicate-delivery:server".into(), format!("requests delivered {:?}", got)));
        }
        if got.iter().any(|u| !o.sent.contains(u)) {
            f.push(("invented-request:server".into(), format!("delivered {:?}, sent {:?}", got, o.sent)));
        }
        if got.len() + q2.0 != o.sent.len() {
            f.push((
                "lost-request:server".into(),
                format!("sent {:?}, delivered {:?}, still queued {}", o.sent, got, q2.0),
            ));
        }
        // one receiver sees the requests of one connection in wire order
        for ri in 0..sc.receivers.len() {
            let mine: Vec<String> = o.calls.iter().filter(|c| c.receiver == ri).filter_map(|c| c.returned.as_ref().and_then(|r| r.0.clone())).collect();
            for ci in 0..sc.conns.len() {
                let of_c: Vec<&String> = mine.iter().filter(|u| u.starts_with(&format!("/c{}r", ci))).collect();
                let mut sorted = of_c.clone();
                sorted.sort();
                if sorted != of_c {
                    f.push(("reordered:server".into(), format!("receiver {} saw connection {}'s requests as {:?}", ri, ci, of_c)));
                }
            }
        }
    } else {
        if q1.1 > 0 && !o.blocked1.is_empty() {
            f.push((
                "unblock-releases-nobody:server".into(),
                format!("{} unblock token(s) queued while receiver call(s) {:?} stay blocked", q1.1, o.blocked1),
            ));
        }
        let consumed = sc.unblocks as i64 - q2.1 as i64;
        let recv_errs = o.calls.iter().filter(before_q2).filter(|c| c.kind == "Recv" && matches!(c.returned, Some((None, true, _, _)))).count() as i64;
        let iter_nones = o.calls.iter().filter(before_q2).filter(|c| (c.kind == "IterNext" || c.kind == "IterKept") && matches!(c.returned, Some((None, _, _, _)))).count() as i64;
        let all_empty = o.calls.iter().filter(before_q2).filter(|c| matches!(c.returned, Some((None, _, _, _)))).count() as i64;
        if recv_errs + iter_nones > consumed {
            f.push((
                "released-without-unblock:server".into(),
                format!("{} recv/iterator calls returned without a request but only {} unblock tokens were consumed", recv_errs + iter_nones, consumed),
            ));
        }
        if consumed > all_empty {
            f.push((
                "unblock-discarded:server".into(),
                format!("{} unblock tokens consumed but only {} calls returned empty-handed", consumed, all_empty),
            ));
        }
        if got.len() + q2.0 != o.sent.len() {
            f.push(("unblock-loses-request:server".into(), format!("sent {:?}, delivered {:?}, still queued {}", o.sent, got, q2.0)));
        }
        for c in &o.calls {
            if c.kind == "TryRecv" {
                if let Some((_, _, _, waits)) = c.returned {
                    if waits > 0 {
                        f.push(("try-recv-blocked:server".into(), format!("try_recv of receiver {} entered {} condvar wait(s)", c.receiver, waits)));
                    }
                }
            }
        }
    }
    if !o.finished && f.is_empty() {
        f.push(("hang".into(), format!("{:?} {:?}", res.end, res.blocked)));
    }
    f
}

pub fn scenarios(which: &str, tier: Tier) -> Vec<(SScenario, u32)> {
    let thorough = tier == Tier::Thorough;
    let mut v = Vec::new();
    let progs: Vec<Vec<RCall>> = vec![
        vec![RCall::Recv],
        vec![RCall::RecvTimeout],
        vec![RCall::IterNext],
        vec![RCall::TryRecv, RCall::Recv],
        vec![RCall::Recv, RCall::Recv],
        vec![RCall::RecvTimeout, RCall::TryRecv],
        vec![RCall::IterKept, RCall::IterKept],
        vec![RCall::IterKept, RCall::IterKept, RCall::IterKept],
    ];
    let mut sets: Vec<Vec<Vec<RCall>>> = Vec::new();
    for a in &progs {
        sets.push(vec![a.clone()]);
    }
    for (i, a) in progs.iter().enumerate() {
        for b in &progs[i..] {
            sets.push(vec![a.clone(), b.clone()]);
        }
    }
    if thorough {
        sets.push(vec![vec![RCall::Recv], vec![RCall::RecvTimeout], vec![RCall::IterNext]]);
    }
    let conn_sets: Vec<Vec<usize>> = if which == "C07" { vec![vec![1], vec![2], vec![1, 1], vec![2, 1]] } else { vec![vec![], vec![1], vec![1, 1]] };
    let unb: Vec<usize> = if which == "C07" { vec![0, 1] } else { vec![1, 2] };
    for rs in &sets {
        for cs in &conn_sets {
            for &u in &unb {
                for first in [true, false] {
                    if !thorough && !first && (cs.len() > 1 || u > 1) {
                        continue;
                    }
                    let small = rs.len() + cs.len() <= 2;
                    let bound = if thorough { if small { 2 } else { 1 } } else if small { 1 } else { 0 };
                    v.push((SScenario { receivers: rs.clone(), conns: cs.clone(), unblocks: u, receivers_first: first }, bound));
                }
            }
        }
    }
    v
}

pub fn run_item(which: &'static str, sc: &SScenario, bound: u32, tier: Tier, acc: &mut Acc) {
    let cfg = L2Cfg {
        mode: Mode::Strict,
        bound: Some(bound),
        max_execs: 400_000,
        wall: Duration::from_secs(if tier == Tier::Thorough { 300 } else { 30 }),
        spurious_upto: Some(if tier == Tier::Thorough { bound.saturating_sub(1) } else { bound }),
    };
    let (s2, s3) = (sc.clone(), sc.clone());
    let found = explore_scenario::<SObs, _, _>(&cfg, acc, &sc.to_json(), move |o| body(s2.clone(), o), |o, r| judge(&s3, o, r, which));
    acc.nontrivial += 1;
    if !found && bound > 0 {
        acc.sample(json!({"scenario": sc.to_json(), "mode": "strict", "bound": bound}));
    }
}

pub fn replay(which: &'static str, replay: &Value, acc: &mut Acc) {
    let sc = SScenario::from_json(&replay["scenario"]);
    let s3 = sc.clone();
    replay_schedule::<SObs, _, _>(acc, replay, move |o| body(sc.clone(), o), |o, r| judge(&s3, o, r, which));
}
