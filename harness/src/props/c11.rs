//! C11 — pipelined requests are read ahead without waiting for earlier answers.

use crate::gen::*;
use crate::infra::*;
use crate::l2::*;
use crate::runner::*;
use serde_json::{json, Value};
use std::io::Read;
use std::sync::{Arc, Mutex, OnceLock};
use std::time::Duration;
use tiny_http::verif_rt::core::{End, RunResult};
use tiny_http::verif_rt::ctl;
use tiny_http::verif_rt::explore::Mode;
use tiny_http::{Request, Response};

pub struct C11;

/// This check is cheap: the quick tier already runs the full alphabet (what used to be the
/// thorough tier); `deep` marks the extras that only the thorough tier adds.
#[allow(dead_code)]
fn full(_t: Tier) -> bool {
    true
}
#[allow(dead_code)]
fn deep(t: Tier) -> bool {
    t == Tier::Thorough
}

#[derive(Clone, Copy, Debug, PartialEq)]
pub enum Kind {
    None,
    Cl1,
    Cl1024,
    Cl1025,
    Chunked10,
    Cl8193,
    Chunked3000,
    /// a request without a body to wait for whose head is out of the ordinary: VARIANTS[k]
    Var(usize),
}

/// (label, request line and headers after `Host`, bytes after the head, answered as to HEAD)
pub const VARIANTS: &[(&str, &str, &str, &str, bool)] = &[
    ("connection-upgrade", "GET", "HTTP/1.1", "Connection: upgrade\r\nUpgrade: verif\r\n", false),
    ("connection-keep-alive-upgrade", "GET", "HTTP/1.1", "Connection: keep-alive, Upgrade\r\nUpgrade: websocket\r\n", false),
    ("connection-keep-alive", "GET", "HTTP/1.1", "Connection: keep-alive\r\n", false),
    ("http10-keep-alive", "GET", "HTTP/1.0", "Connection: keep-alive\r\n", false),
    ("content-length-1-keep-alive", "POST", "HTTP/1.1", "Connection: Keep-Alive\r\nContent-Length: 1\r\n", false),
    ("te-header", "GET", "HTTP/1.1", "TE: trailers, chunked;q=0.5\r\n", false),
    ("head-method", "HEAD", "HTTP/1.1", "", true),
    ("options-method", "OPTIONS", "HTTP/1.1", "Content-Length: 0\r\n", false),
    ("forty-headers", "GET", "HTTP/1.1", "", false),
];

impl Kind {
    fn small(&self) -> bool {
        matches!(self, Kind::None | Kind::Cl1 | Kind::Cl1024 | Kind::Var(_))
    }
    fn head_request(&self) -> bool {
        matches!(self, Kind::Var(k) if VARIANTS[*k].4)
    }
    fn request(&self, i: usize) -> Vec<u8> {
        let p = format!("/r{}", i);
        match self {
            Kind::None => get(&p),
            Kind::Cl1 => post_cl(&p, &payload(1)),
            Kind::Cl1024 => post_cl(&p, &payload(1024)),
            Kind::Cl1025 => post_cl(&p, &payload(1025)),
            Kind::Chunked10 => post_chunked(&p, &payload(10), &[4, 6]),
            Kind::Cl8193 => post_cl(&p, &payload(8193)),
            Kind::Chunked3000 => post_chunked(&p, &payload(3000), &[1024, 1, 1975]),
            Kind::Var(k) => {
                let (label, method, version, headers, _) = VARIANTS[*k];
                let mut h = headers.to_string();
                if label == "forty-headers" {
                    for j in 0..40 {
                        h.push_str(&format!("X-H{}: {}\r\n", j, "v".repeat(j + 1)));
                    }
                }
                let mut b = format!("{} {} {}\r\nHost: t\r\n{}\r\n", method, p, version, h).into_bytes();
                if label == "content-length-1-keep-alive" {
                    b.push(b'x');
                }
                b
            }
        }
    }
    fn from_str(s: &str) -> Kind {
        match s {
            "Cl1" => Kind::Cl1,
            "Cl1024" => Kind::Cl1024,
            "Cl1025" => Kind::Cl1025,
            "Chunked10" => Kind::Chunked10,
            "Cl8193" => Kind::Cl8193,
            "Chunked3000" => Kind::Chunked3000,
            v if v.starts_with("Var(") => Kind::Var(v[4..v.len() - 1].parse().unwrap_or(0)),
            _ => Kind::None,
        }
    }
}

/// what the application does with a request whose body delays its successors
#[derive(Clone, Copy, Debug, PartialEq)]
pub enum Release {
    /// nothing: collect all requests first (only for pipelines of small bodies)
    CollectAll,
    /// read_to_end into an empty Vec
    ReadToEof,
    /// one read with a buffer of exactly the body length, then a read that returns 0
    ReadExactThenZero,
    /// reads with buffers whose size divides the body length, until one returns 0
    ReadDividingBlocks,
    /// one byte at a time until a read returns 0
    ReadBytewise,
    Respond,
    Drop,
    /// the first request is being answered by another thread with a response far larger than
    /// what the client's side of the connection takes (the client does not read): that thread
    /// is stuck in its write; the following requests, sent one by one, must still arrive
    StalledWriter,
}

#[derive(Clone, Debug, PartialEq)]
pub struct Sc {
    pub kinds: Vec<Kind>,
    pub release: Release,
    /// exchanges (GET, answered at once) on the connection before the pipeline is sent
    pub history: usize,
}

impl Sc {
    fn to_json(&self) -> Value {
        json!({"kinds": self.kinds.iter().map(|k| format!("{:?}", k)).collect::<Vec<_>>(), "release": format!("{:?}", self.release), "history": self.history})
    }
    fn from_json(v: &Value) -> Sc {
        Sc {
            kinds: v["kinds"].as_array().map(|a| a.iter().map(|k| Kind::from_str(k.as_str().unwrap_or(""))).collect()).unwrap_or_default(),
            release: match v["release"].as_str() {
                Some("ReadToEof") => Release::ReadToEof,
                Some("ReadExactThenZero") => Release::ReadExactThenZero,
                Some("ReadDividingBlocks") => Release::ReadDividingBlocks,
                Some("ReadBytewise") => Release::ReadBytewise,
                Some("Respond") => Release::Respond,
                Some("Drop") => Release::Drop,
                Some("StalledWriter") => Release::StalledWriter,
                _ => Release::CollectAll,
            },
            history: v["history"].as_u64().unwrap_or(0) as usize,
        }
    }
}

#[derive(Clone, Debug, Default)]
pub struct O {
    /// urls in the order obtained, and how many were unanswered when each was obtained
    pub obtained: Vec<(String, usize)>,
    pub all_obtained: bool,
    pub received: Vec<u8>,
    pub done: bool,
}

fn body_stalled(sc: Sc, obs: Arc<Mutex<O>>) {
    ctl::window(false);
    let srv = start_server();
    ctl::settle();
    let c = connect(&srv.addr, 0, &ConnSpec { capacity: Some(4096), ..ConnSpec::default() }).expect("connect");
    let n = sc.kinds.len();
    let _ = c.send(&Kind::None.request(0));
    let first = srv.server.recv().expect("recv");
    obs.lock().unwrap().obtained.push((first.url().to_string(), 0));
    ctl::window(true);
    let writer = tiny_http::verif_rt::thread::spawn_named(Some("big-answer".into()), move || {
        let _ = first.respond(Response::from_string("B".repeat(200_000)));
    });
    ctl::settle();
    let mut held: Vec<Request> = Vec::new();
    for i in 1..n {
        let _ = c.send(&sc.kinds[i].request(i));
        // blocks for ever if the request is not made available: reported as a deadlock
        match srv.server.recv() {
            Ok(rq) => {
                obs.lock().unwrap().obtained.push((rq.url().to_string(), held.len() + 1));
                held.push(rq);
            }
            Err(_) => break,
        }
        ctl::settle();
    }
    {
        let mut o = obs.lock().unwrap();
        o.all_obtained = o.obtained.len() == n;
    }
    ctl::window(false);
    // now the client reads: the big answer gets through, then the others
    let answerer = tiny_http::verif_rt::thread::spawn_named(Some("answers".into()), move || {
        for rq in held {
            let _ = rq.respond(Response::from_string("ok"));
        }
    });
    let mut received = Vec::new();
    for _ in 0..200 {
        ctl::settle();
        let d = c.drain();
        let got = d.segments.concat();
        if got.is_empty() {
            break;
        }
        received.extend(got);
    }
    let _ = writer.join();
    let _ = answerer.join();
    ctl::settle();
    received.extend(c.drain().segments.concat());
    obs.lock().unwrap().received = received;
    c.close_write();
    ctl::settle();
    drop(c);
    drop(srv);
    ctl::sleep(Duration::from_millis(11_000));
    ctl::settle();
    obs.lock().unwrap().done = true;
}

pub fn body(sc: Sc, obs: Arc<Mutex<O>>) {
    if sc.release == Release::StalledWriter {
        return body_stalled(sc, obs);
    }
    ctl::window(false);
    let srv = start_server();
    ctl::settle();
    let c = connect(&srv.addr, 0, &ConnSpec::default()).expect("connect");
    let mut bytes = Vec::new();
    for (i, k) in sc.kinds.iter().enumerate() {
        bytes.extend_from_slice(&k.request(i));
    }
    for h in 0..sc.history {
        let _ = c.send(&get(&format!("/h{}", h)));
        match srv.server.recv() {
            Ok(rq) => {
                let _ = rq.respond(Response::from_string("h"));
            }
            Err(_) => break,
        }
    }
    if sc.history > 0 {
        ctl::settle();
    }
    ctl::window(true);
    let _ = c.send(&bytes);
    let mut held: Vec<Request> = Vec::new();
    for k in &sc.kinds {
        // blocks for ever if the request is not made available: reported as a deadlock
        let mut rq = match srv.server.recv() {
            Ok(r) => r,
            Err(_) => break,
        };
        obs.lock().unwrap().obtained.push((rq.url().to_string(), held.len()));
        if k.small() {
            held.push(rq);
            continue;
        }
        match sc.release {
            Release::CollectAll => held.push(rq),
            Release::ReadToEof => {
                let mut sink = Vec::new();
                let _ = rq.as_reader().read_to_end(&mut sink);
                held.push(rq);
            }
            Release::ReadExactThenZero | Release::ReadDividingBlocks | Release::ReadBytewise => {
                let len = match k {
                    Kind::Cl1025 => 1025,
                    Kind::Cl8193 => 8193,
                    Kind::Chunked3000 => 3000,
                    _ => 10,
                };
                let block = match sc.release {
                    Release::ReadExactThenZero => len,
                    Release::ReadDividingBlocks => if len % 5 == 0 { 5 } else { 3 },
                    _ => 1,
                };
                let mut buf = vec![0u8; block];
                let mut got = 0usize;
                // "read to its end": until a read reports end-of-stream
                loop {
                    match rq.as_reader().read(&mut buf) {
                        Ok(0) | Err(_) => break,
                        Ok(n) => got += n,
                    }
                    if got > len {
                        break;
                    }
                }
                held.push(rq);
            }
            Release::Respond => {
                // "has been answered": responses leave in request order, so the earlier
                // requests are answered first; then this one, before its successor is awaited
                for h in held.drain(..) {
                    let _ = h.respond(Response::from_string("ok"));
                }
                let _ = rq.respond(Response::from_string("released"));
            }
            Release::Drop => {
                for h in held.drain(..) {
                    let _ = h.respond(Response::from_string("ok"));
                }
                drop(rq);
            }
            Release::StalledWriter => unreachable!(),
        }
    }
    {
        let mut o = obs.lock().unwrap();
        o.all_obtained = o.obtained.len() == sc.kinds.len();
    }
    ctl::window(false);
    for rq in held {
        let _ = rq.respond(Response::from_string("ok"));
    }
    ctl::settle();
    let d = c.drain();
    obs.lock().unwrap().received = d.segments.concat();
    c.close_write();
    ctl::settle();
    drop(c);
    drop(srv);
    ctl::sleep(Duration::from_millis(11_000));
    ctl::settle();
    obs.lock().unwrap().done = true;
}

pub fn judge(sc: &Sc, o: &O, res: &RunResult) -> Vec<(String, String)> {
    let mut f = Vec::new();
    for p in &res.panics {
        f.push(("panic".to_string(), format!("{} at {}", p.message, p.location)));
    }
    if res.end == End::Diverged {
        return vec![("machinery".into(), format!("{:?}", res.divergence))];
    }
    let class = if sc.kinds.iter().all(|k| k.small()) { "small-bodies-pipeline" } else { "after-large-body-released" };
    if !o.all_obtained {
        f.push((
            format!("not-read-ahead:{}", class),
            format!(
                "only {} of {} pipelined requests became available ({:?}); the application waits for request {} while {} earlier ones are unanswered: {:?}",
                o.obtained.len(), sc.kinds.len(), o.obtained.iter().map(|x| x.0.clone()).collect::<Vec<_>>(), o.obtained.len(), o.obtained.len(), res.blocked
            ),
        ));
        return f;
    }
    let want: Vec<String> = (0..sc.kinds.len()).map(|i| format!("/r{}", i)).collect();
    let got: Vec<String> = o.obtained.iter().map(|x| x.0.clone()).collect();
    if got != want {
        f.push((format!("wrong-requests:{}", class), format!("obtained {:?}, sent {:?}", got, want)));
    }
    if o.done {
        let mut heads = vec![false; sc.history];
        heads.extend(sc.kinds.iter().map(|k| k.head_request()));
        let st = crate::httpparse::parse_stream(&o.received, &heads);
        if st.error.is_some() || st.finals().len() != sc.kinds.len() + sc.history {
            f.push((format!("answers:{}", class), format!("{} answers for {} requests (parse error: {:?})", st.finals().len(), sc.kinds.len() + sc.history, st.error)));
        }
    } else if f.is_empty() {
        f.push(("hang".into(), format!("{:?} {:?}", res.end, res.blocked)));
    }
    f
}

fn items(tier: Tier) -> &'static Vec<(Sc, u32)> {
    static Q: OnceLock<Vec<(Sc, u32)>> = OnceLock::new();
    static T: OnceLock<Vec<(Sc, u32)>> = OnceLock::new();
    let cell = if !deep(tier) { &Q } else { &T };
    cell.get_or_init(|| {
        let thorough = full(tier);
        let all = [Kind::None, Kind::Cl1, Kind::Cl1024, Kind::Cl1025, Kind::Chunked10];
        let two = [Kind::None, Kind::Cl1024];
        let mut v = Vec::new();
        let mut push = |kinds: Vec<Kind>, v: &mut Vec<(Sc, u32)>| {
            let n = kinds.len();
            let bound = if deep(tier) {
                if n <= 2 { 3 } else if n <= 3 { 2 } else if n <= 5 { 1 } else { 0 }
            } else if thorough && n <= 2 { 2 } else if n <= 3 || (thorough && n <= 4) { 1 } else { 0 };
            if kinds.iter().all(|k| k.small()) {
                v.push((Sc { kinds, release: Release::CollectAll, history: 0 }, bound));
            } else {
                for r in [Release::ReadToEof, Release::ReadExactThenZero, Release::ReadDividingBlocks, Release::ReadBytewise, Release::Respond, Release::Drop] {
                    v.push((Sc { kinds: kinds.clone(), release: r, history: 0 }, bound));
                }
            }
        };
        for n in 2..=(if thorough { 4 } else { 3 }) {
            let sp = crate::props::Space::new(&vec![all.len(); n]);
            for i in 0..sp.size() {
                push(sp.decode(i).into_iter().map(|d| all[d]).collect(), &mut v);
            }
        }
        if deep(tier) {
            // thorough only: every pipeline of 5 over the five kinds; pipelines of 2..3 that
            // contain a body beyond the 8 KiB discard buffer or a multi-chunk body beyond the
            // 1 KiB read buffer
            let sp = crate::props::Space::new(&vec![all.len(); 5]);
            for i in 0..sp.size() {
                push(sp.decode(i).into_iter().map(|d| all[d]).collect(), &mut v);
            }
            let more = [Kind::None, Kind::Cl1024, Kind::Cl1025, Kind::Cl8193, Kind::Chunked3000];
            for n in 2..=3usize {
                let sp = crate::props::Space::new(&vec![more.len(); n]);
                for i in 0..sp.size() {
                    let kinds: Vec<Kind> = sp.decode(i).into_iter().map(|d| more[d]).collect();
                    if kinds.iter().any(|k| matches!(k, Kind::Cl8193 | Kind::Chunked3000)) {
                        push(kinds, &mut v);
                    }
                }
            }
        }
        // a writer stuck in a large answer that the client does not read
        for n in 2..=4usize {
            v.push((Sc { kinds: vec![Kind::None; n], release: Release::StalledWriter, history: 0 }, if n <= 3 { 1 } else { 0 }));
        }
        // requests whose head is out of the ordinary (Connection: upgrade, explicit keep-alive,
        // HTTP/1.0 keep-alive, Expect, TE, HEAD, OPTIONS, forty headers) anywhere in a pipeline
        // that the application collects before answering
        let mut vars: Vec<Kind> = vec![Kind::None, Kind::Cl1024];
        vars.extend((0..VARIANTS.len()).map(Kind::Var));
        for n in 2..=3usize {
            let sp = crate::props::Space::new(&vec![vars.len(); n]);
            for i in 0..sp.size() {
                let kinds: Vec<Kind> = sp.decode(i).into_iter().map(|d| vars[d]).collect();
                // a request that announces an upgrade is the last one the library reads on its
                // connection (what follows belongs to the new protocol): last position only
                let upgrade_inside = kinds[..n - 1].iter().any(|k| matches!(k, Kind::Var(j) if VARIANTS[*j].0.contains("upgrade")));
                if kinds.iter().any(|k| matches!(k, Kind::Var(_))) && !upgrade_inside {
                    push(kinds, &mut v);
                }
            }
        }
        // long pipelines and long histories (default schedule): nothing may depend on how many
        // requests the connection has carried or holds
        let long: Vec<usize> = if deep(tier) { (9..=140).chain([255, 256, 257, 300, 511, 512, 513, 1000, 1025, 2000]).collect() } else { vec![9, 16, 17, 32, 33, 63, 64, 65, 66, 100, 127, 128, 129, 130, 256, 257, 300] };
        for n in long {
            v.push((Sc { kinds: vec![Kind::None; n], release: Release::CollectAll, history: 0 }, 0));
            if n <= 300 {
                v.push((Sc { kinds: (0..n).map(|i| if i % 2 == 0 { Kind::Cl1 } else { Kind::None }).collect(), release: Release::CollectAll, history: 0 }, 0));
            }
        }
        for h in if deep(tier) { (1..=300).chain([511, 512, 1023, 1024, 1025]).collect::<Vec<usize>>() } else { (1..=140).chain([255, 256, 257]).collect() } {
            v.push((Sc { kinds: vec![Kind::None, Kind::Cl1024, Kind::None], release: Release::CollectAll, history: h }, 0));
        }
        for n in (if thorough { 5 } else { 4 })..=8 {
            let sp = crate::props::Space::new(&vec![2; n]);
            for i in 0..sp.size() {
                push(sp.decode(i).into_iter().map(|d| two[d]).collect(), &mut v);
            }
        }
        v
    })
}

impl Check for C11 {
    fn id(&self) -> &'static str {
        "C11"
    }
    fn level(&self) -> &'static str {
        "model_checking"
    }
    fn n_items(&self, tier: Tier) -> u64 {
        items(tier).len() as u64
    }
    fn chunk(&self, _tier: Tier) -> u64 {
        8
    }
    fn run_item(&self, idx: u64, tier: Tier, acc: &mut Acc) {
        let (sc, bound) = &items(tier)[idx as usize];
        let cfg = L2Cfg {
            mode: Mode::Strict,
            bound: Some(*bound),
            max_execs: 300_000,
            wall: Duration::from_secs(if full(tier) { 200 } else { 30 }),
            spurious_upto: None,
        };
        let (s2, s3) = (sc.clone(), sc.clone());
        let found = explore_scenario::<O, _, _>(&cfg, acc, &sc.to_json(), move |o| body(s2.clone(), o), |o, r| judge(&s3, o, r));
        acc.nontrivial += 1;
        if !found && *bound > 0 {
            acc.sample(json!({"scenario": sc.to_json(), "mode": "strict", "bound": bound}));
        }
    }
    fn rule(&self, tier: Tier) -> String {
        format!(
            "pipelines of n = 2..{} requests over body kinds {{none, Content-Length 1 / 1024 / 1025, chunked 10}} and n = {}..8 over {{none, Content-Length 1024}}, sent in one piece; application program: pipelines whose bodies are all absent or <= 1024 bytes: collect all n requests with recv() before answering any (a request that does not become available leaves the application blocked: deadlock report = violation); otherwise a request with a larger or chunked body is read to its end (read_to_end; one read of exactly the body length then a read returning 0; blocks dividing the length; byte by byte) / answered / dropped and then the successor is waited for; plus pipelines of up to 300 (thorough 2000) body-less / 1-byte-body requests collected before any answer, and pipelines of 3 collected after histories of 1..140, 255..257 (thorough 1..300, 511, 512, 1023..1025) answered exchanges on the same connection (default schedule); {} scenarios, all schedules with at most 1 deviation (strict) for n <= {}, default schedule beyond{}; non-trivial = all",
            if full(tier) { 4 } else { 3 }, if full(tier) { 5 } else { 4 }, items(tier).len(), if full(tier) { 3 } else { 2 },
            if deep(tier) { " || 2..4 bodiless requests sent one by one while another thread is stuck answering the first with 200 000 bytes that the client does not read (4096 bytes fit): each must still become available, bound 1 || pipelines of 2..3 over {none, Content-Length 1024, and nine requests whose head is out of the ordinary: Connection: upgrade + Upgrade, Connection: keep-alive, Upgrade, explicit keep-alive, HTTP/1.0 keep-alive, a 1-byte body with Connection: Keep-Alive, TE, HEAD, OPTIONS, forty headers} with at least one of the nine (the two that announce an upgrade only in the last position: the library reads no further request after them), collected before any is answered || thorough adds: every pipeline of 5 over the five kinds, pipelines of 2..3 containing Content-Length 8193 or a 3000-byte body in chunks 1024/1/1975, and bounds 3 (n <= 2) / 2 (n = 3) / 1 (n <= 5)" } else { " || 2..4 bodiless requests sent one by one while another thread is stuck answering the first with 200 000 bytes that the client does not read (4096 bytes fit): each must still become available, bound 1 || pipelines of 2..3 over {none, Content-Length 1024, and nine requests whose head is out of the ordinary: Connection: upgrade + Upgrade, Connection: keep-alive, Upgrade, explicit keep-alive, HTTP/1.0 keep-alive, a 1-byte body with Connection: Keep-Alive, TE, HEAD, OPTIONS, forty headers} with at least one of the nine (the two that announce an upgrade only in the last position: the library reads no further request after them), collected before any is answered" }
        )
    }
    fn assumptions(&self) -> Vec<String> {
        vec!["for a request behind a large or chunked body nothing earlier than 'after that body was read to its end, or the request was answered or dropped' is required".into()]
    }
    fn replay(&self, replay: &Value, acc: &mut Acc) {
        let sc = Sc::from_json(&replay["scenario"]);
        let s3 = sc.clone();
        replay_schedule::<O, _, _>(acc, replay, move |o| body(sc.clone(), o), |o, r| judge(&s3, o, r));
    }
}
