//! C17, extreme timeouts: `recv_timeout` with zero, sub-millisecond and enormous durations
//! (`Duration::MAX`, `u64::MAX` seconds / milliseconds, `i64::MAX` seconds, 2^40 seconds),
//! with nothing happening, a request already queued, a request or an unblock arriving after
//! one second. No panic, the request / the release is delivered, and the short ones return
//! empty-handed within twice their timeout (plus 1 ms of virtual latency).

use crate::infra::*;
use crate::l2::*;
use crate::runner::*;
use serde_json::{json, Value};
use std::sync::{Arc, Mutex};
use std::time::Duration;
use tiny_http::verif_rt::core::{AltKind, End, RunResult};
use tiny_http::verif_rt::explore::Mode;
use tiny_http::verif_rt::time::Instant;
use tiny_http::verif_rt::{ctl, thread};
use tiny_http::Response;

pub const DURS: &[(&str, u64, u32)] = &[
    ("zero", 0, 0),
    ("1ns", 0, 1),
    ("999999ns", 0, 999_999),
    ("1ms", 0, 1_000_000),
    ("1.5ms", 0, 1_500_000),
    ("2^40s", 1 << 40, 0),
    ("i64::MAX s", i64::MAX as u64, 0),
    ("u64::MAX ms", u64::MAX / 1000, ((u64::MAX % 1000) * 1_000_000) as u32),
    ("u64::MAX s", u64::MAX, 0),
    ("Duration::MAX", u64::MAX, 999_999_999),
];
pub const EVENTS: &[&str] = &["nothing", "request-queued-before", "request-after-1s", "unblock-after-1s", "unblock-before"];

#[derive(Clone, Debug, Default)]
pub struct XObs {
    pub returned: Option<String>,
    pub elapsed_ns: u64,
    pub done: bool,
}

pub fn body(d: usize, e: usize, obs: Arc<Mutex<XObs>>) {
    ctl::window(false);
    let (_, s, n) = DURS[d];
    let dur = Duration::new(s, n);
    let ev = EVENTS[e];
    let srv = start_server();
    ctl::settle();
    let c = connect(&srv.addr, 0, &ConnSpec::default()).expect("connect");
    if ev == "request-queued-before" {
        let _ = c.send(b"GET /q HTTP/1.1\r\nHost: t\r\n\r\n");
    }
    if ev == "unblock-before" {
        srv.server.unblock();
    }
    ctl::settle();
    ctl::window(true);
    let app = {
        let (server, obs) = (srv.server.clone(), obs.clone());
        thread::spawn_named(Some("app".into()), move || {
            let t0 = Instant::now();
            let r = server.recv_timeout(dur);
            let el = t0.elapsed().as_nanos() as u64;
            let what = match r {
                Ok(Some(rq)) => {
                    let u = rq.url().to_string();
                    let _ = rq.respond(Response::from_string("x"));
                    format!("request {}", u)
                }
                Ok(None) => "nothing".to_string(),
                Err(e) => format!("error {:?}", e.kind()),
            };
            let mut o = obs.lock().unwrap();
            o.returned = Some(what);
            o.elapsed_ns = el;
        })
    };
    if ev == "request-after-1s" || ev == "unblock-after-1s" {
        ctl::sleep(Duration::from_secs(1));
        if ev == "request-after-1s" {
            let _ = c.send(b"GET /late HTTP/1.1\r\nHost: t\r\n\r\n");
        } else {
            srv.server.unblock();
        }
    } else if ev == "nothing" && s >= 1 {
        // an enormous wait with nothing happening would only end at the horizon: release it
        ctl::sleep(Duration::from_secs(5));
        srv.server.unblock();
    }
    let _ = app.join();
    ctl::settle();
    ctl::window(false);
    obs.lock().unwrap().done = true;
    drop(c);
    drop(srv);
    ctl::sleep(Duration::from_millis(11_000));
    ctl::settle();
}

pub fn judge(d: usize, e: usize, o: &XObs, res: &RunResult) -> Vec<(String, String)> {
    let mut f = Vec::new();
    let (label, s, n) = DURS[d];
    let ev = EVENTS[e];
    for p in &res.panics {
        f.push(("extreme-timeout:panic".to_string(), format!("recv_timeout({}) with {}: {} at {}", label, ev, p.message, p.location)));
    }
    if res.end == End::Diverged {
        return vec![("machinery".into(), format!("{:?}", res.divergence))];
    }
    if !f.is_empty() {
        return f;
    }
    if !o.done {
        f.push(("hang".into(), format!("recv_timeout({}) with {}: {:?} {:?}", label, ev, res.end, res.blocked)));
        return f;
    }
    let got = o.returned.clone().unwrap_or_default();
    let short = s == 0;
    let t_ns = s.saturating_mul(1_000_000_000).saturating_add(n as u64);
    let timer_deviation = res.decisions.iter().any(|x| matches!(x.kinds[x.chosen as usize], AltKind::Timer | AltKind::Late));
    let want: &[&str] = match ev {
        "request-queued-before" => &["request /q"],
        "unblock-before" => &["nothing"],
        "nothing" => &["nothing"],
        // a short wait is over before the second is - unless the scheduler lets the call
        // begin that late
        "request-after-1s" => {
            if short {
                &["nothing", "request /late"]
            } else {
                &["request /late"]
            }
        }
        _ => &["nothing"],
    };
    // a timed wait that expires out of turn (timer / late wake-up deviation) models a thread
    // that was not scheduled for that long: what it finds then is not determined by `ev`
    let decided = !timer_deviation || ev == "request-queued-before" || ev == "unblock-before";
    if decided && !want.contains(&got.as_str()) {
        f.push(("extreme-timeout:result".into(), format!("recv_timeout({}) with {}: returned {:?}, expected {:?}", label, ev, got, want)));
    }
    if !timer_deviation {
        if short && got == "nothing" && ev != "unblock-before" && o.elapsed_ns > 2 * t_ns + 1_000_000 {
            f.push(("recv-timeout-too-late".into(), format!("recv_timeout({}) with {}: returned empty after {} ns", label, ev, o.elapsed_ns)));
        }
        if !short {
            let bound = match ev {
                "nothing" => 5_000_000_000u64,
                "request-after-1s" | "unblock-after-1s" => 1_000_000_000,
                _ => 0,
            };
            if o.elapsed_ns > bound + 1_000_000 {
                f.push(("extreme-timeout:late".into(), format!("recv_timeout({}) with {}: returned {:?} after {} ns, the event came at {} ns", label, ev, got, o.elapsed_ns, bound)));
            }
            if (ev == "nothing" || ev == "unblock-after-1s" || ev == "request-after-1s") && o.elapsed_ns + 1_000_000 < bound {
                f.push(("recv-timeout-too-early".into(), format!("recv_timeout({}) with {}: returned {:?} after {} ns, before anything happened", label, ev, got, o.elapsed_ns)));
            }
        }
    }
    f
}

pub fn n_items() -> usize {
    DURS.len() * EVENTS.len()
}

pub fn run_item(k: usize, tier: Tier, acc: &mut Acc) {
    let (d, e) = (k / EVENTS.len(), k % EVENTS.len());
    let cfg = L2Cfg { mode: Mode::Strict, bound: Some(if tier == Tier::Thorough { 2 } else { 1 }), max_execs: 200_000, wall: Duration::from_secs(300), spurious_upto: Some(1) };
    let sc = json!({"seam": "Server", "family": "extreme-timeouts", "timeout": DURS[d].0, "d": d, "event": EVENTS[e], "e": e});
    explore_scenario::<XObs, _, _>(&cfg, acc, &sc, move |o| body(d, e, o), move |o, r| judge(d, e, o, r));
    acc.nontrivial += 1;
}

pub fn is_replay(replay: &Value) -> bool {
    replay["scenario"]["family"].as_str() == Some("extreme-timeouts")
}

pub fn replay(replay: &Value, acc: &mut Acc) {
    let d = replay["scenario"]["d"].as_u64().unwrap_or(0) as usize;
    let e = replay["scenario"]["e"].as_u64().unwrap_or(0) as usize;
    replay_schedule::<XObs, _, _>(acc, replay, move |o| body(d, e, o), move |o, r| judge(d, e, o, r));
}

pub const RULE: &str = "extreme timeouts at the Server seam: recv_timeout with {0, 1 ns, 999999 ns, 1 ms, 1.5 ms, 2^40 s, i64::MAX s, u64::MAX ms, u64::MAX s, Duration::MAX} x {nothing happens (the enormous ones are released by an unblock after 5 s), a request queued before, an unblock issued before, a request after 1 s, an unblock after 1 s}, strict bound 1 (thorough 2) with spurious and late wake-ups: no panic, the queued / arriving request is returned, the unblock releases the call, nothing is returned early, the short ones are back within twice their timeout + 1 ms and the enormous ones within 1 ms of the event";
