//! C17 — see props/queue.rs (component seam) for the scenario families and oracles.

use crate::infra::*;
use crate::props::queue::*;
use crate::props::srvq;
use serde_json::Value;
use std::sync::OnceLock;

pub struct C17;

fn scen(tier: Tier) -> &'static Vec<QScenario> {
    static Q: OnceLock<Vec<QScenario>> = OnceLock::new();
    static T: OnceLock<Vec<QScenario>> = OnceLock::new();
    let cell = if tier == Tier::Quick { &Q } else { &T };
    cell.get_or_init(|| if "C17" == "C07" { scenarios_c07(tier) } else { scenarios_c17(tier) })
}

fn srv_scen(tier: Tier) -> &'static Vec<(srvq::SScenario, u32)> {
    static Q: OnceLock<Vec<(srvq::SScenario, u32)>> = OnceLock::new();
    static T: OnceLock<Vec<(srvq::SScenario, u32)>> = OnceLock::new();
    let cell = if tier == Tier::Quick { &Q } else { &T };
    cell.get_or_init(|| srvq::scenarios("C17", tier))
}

impl Check for C17 {
    fn id(&self) -> &'static str {
        "C17"
    }
    fn level(&self) -> &'static str {
        "model_checking"
    }
    fn n_items(&self, tier: Tier) -> u64 {
        (scen(tier).len() + srv_scen(tier).len()) as u64 + seq_items(tier) + crate::props::extremes::n_items() as u64
    }
    fn chunk(&self, _tier: Tier) -> u64 {
        4
    }
    fn run_item(&self, idx: u64, tier: Tier, acc: &mut Acc) {
        let nq = scen(tier).len() as u64;
        if idx < nq {
            run_queue_item("C17", &scen(tier)[idx as usize], tier, acc);
        } else if idx < nq + srv_scen(tier).len() as u64 {
            let (sc, bound) = &srv_scen(tier)[(idx - nq) as usize];
            srvq::run_item("C17", sc, *bound, tier, acc);
        } else if idx < nq + srv_scen(tier).len() as u64 + seq_items(tier) {
            seq_run_item(idx - nq - srv_scen(tier).len() as u64, tier, acc);
        } else {
            crate::props::extremes::run_item((idx - nq - srv_scen(tier).len() as u64 - seq_items(tier)) as usize, tier, acc);
        }
    }
    fn rule(&self, tier: Tier) -> String {
        format!(
            "{} || server seam: real Server, application threads with programs over {{recv, recv_timeout(T), try_recv, incoming_requests().next() on a fresh iterator, next() on one iterator kept across calls}} (every single program and pair{}), connections {} with pipelined requests, {} unblock calls, receivers blocked first or racing; {} scenarios, strict bound {}; same oracles read through Server::verif_queue_snapshot (hook H5) || sequential family: EVERY sequence of {} operations over {{push, unblock, try_pop, pop_timeout(T), pop}} run by one thread ({} programs), with the queue's (requests, tokens) snapshot before and after every call: a call that returns empty-handed while a request is queued must have consumed exactly one token, requests come out in push order exactly once, try_pop enters no wait, pop_timeout bounds || {}",
            rule_text("C17", tier, scen(tier).len()),
            if tier == Tier::Thorough { " and one triple" } else { "" },
            if "C17" == "C07" { "[1] [2] [1,1] [2,1]" } else { "[] [1] [1,1]" },
            if "C17" == "C07" { "0..1" } else { "1..2" },
            srv_scen(tier).len(),
            if tier == Tier::Thorough { "2 (<= 2 receivers+connections) / 1" } else { "1 / 0" },
            if tier == Tier::Thorough { SEQ_DEPTH_THOROUGH } else { SEQ_DEPTH_QUICK },
            seq_items(tier) * 25,
            crate::props::extremes::RULE
        )
    }
    fn assumptions(&self) -> Vec<String> {
        vec![
            "timing clauses are decided on the virtual clock (a timed wait may expire at any scheduling decision, at the cost of one deviation; otherwise time passes only at quiescence); the upper bound of recv_timeout is judged only in executions without such a deviation, which model unbounded scheduling latency".into(),
            "the component seam drives tiny_http::util::MessagesQueue directly (the object behind Server::recv / recv_timeout / try_recv / unblock)".into(),
        ]
    }
    fn replay(&self, replay: &Value, acc: &mut Acc) {
        if crate::props::extremes::is_replay(replay) {
            crate::props::extremes::replay(replay, acc);
        } else if replay.get("sequential_ops").is_some() {
            seq_replay(replay, acc);
        } else if replay["scenario"]["seam"].as_str() == Some("Server") {
            srvq::replay("C17", replay, acc);
        } else {
            replay_queue("C17", replay, acc);
        }
    }
}
