//! C04 — every response is a well-formed, self-delimiting message with exactly the body.
//! L0: exhaustive enumeration of the response-configuration product through
//! `Response::raw_print`, judged by the independent client parser.

use crate::httpparse::parse_one;
use crate::infra::*;
use crate::props::Space;
use serde_json::{json, Value};
use std::io::Read;
use tiny_http::{HTTPVersion, Header, Response, StatusCode};

pub struct C04;

const STATUSES: [u16; 17] = [
    100, 101, 199, 200, 201, 204, 205, 299, 300, 304, 400, 404, 499, 500, 599, 600, 999,
];
const STATUS_SWEEP_ITEMS: u64 = 9;
const LENGTHS_T: [usize; 14] = [0, 1, 2, 8191, 8192, 8193, 16385, 32767, 32768, 32769, 65535, 65536, 65537, 70000];
const LENGTHS_Q: [usize; 7] = [0, 1, 8192, 8193, 32768, 65536, 70000];
const TES: [Option<&str>; 7] = [
    None,
    Some("chunked"),
    Some("identity"),
    Some("trailers"),
    Some("gzip"),
    Some("identity;q=0.5, chunked;q=0.9"),
    Some("chunked;q=0"),
];
// reader piece sizes; 0 = whole, usize::MAX = irregular cycle, usize::MAX - 1 = irregular cycle
// with a transient ErrorKind::Interrupted before every second piece (Read's contract: retry)
const INTERRUPTING: usize = usize::MAX - 1;
const PIECES_T: [usize; 8] = [0, 1, 7, 4096, 8192, 8193, usize::MAX, INTERRUPTING];
const PIECES_Q: [usize; 4] = [0, 7, usize::MAX, INTERRUPTING];
const THRESHOLD_KINDS: usize = 7; // 0, 1, len-1, len, len+1, default, MAX

/// A reader that hands out its data in pieces of a prescribed size.
pub struct PieceReader {
    data: Vec<u8>,
    pos: usize,
    piece: usize,
    n: usize,
    calls: usize,
}

impl PieceReader {
    pub fn new(data: Vec<u8>, piece: usize) -> PieceReader {
        PieceReader {
            data,
            pos: 0,
            piece,
            n: 0,
            calls: 0,
        }
    }
}

impl Read for PieceReader {
    fn read(&mut self, buf: &mut [u8]) -> std::io::Result<usize> {
        let left = self.data.len() - self.pos;
        self.calls += 1;
        if self.piece == INTERRUPTING && self.calls % 2 == 1 {
            return Err(std::io::Error::new(std::io::ErrorKind::Interrupted, "interrupted (transient)"));
        }
        let mut k = match self.piece {
            0 => left,
            usize::MAX | INTERRUPTING => [1usize, 4095, 3, 8192, 2, 10000][self.n % 6],
            p => p,
        };
        self.n += 1;
        k = k.min(left).min(buf.len());
        buf[..k].copy_from_slice(&self.data[self.pos..self.pos + k]);
        self.pos += k;
        Ok(k)
    }
}

#[derive(Clone, Debug)]
pub struct Config {
    pub status: u16,
    pub len: usize,
    pub declared: bool,
    pub threshold: Option<usize>,
    pub version: (u8, u8),
    pub head: bool,
    pub te: Option<String>,
    pub piece: usize,
    pub extra_headers: usize,
    /// index into REQ_EXTRA: further headers of the request being answered
    pub req_extra: usize,
}

/// Headers the answered request may carry besides Host and TE: none of them is an input to
/// the framing of the response.
pub const REQ_EXTRA: [&[(&str, &str)]; 6] = [
    &[],
    &[("Connection", "close")],
    &[("Connection", "keep-alive"), ("Accept-Encoding", "gzip, identity;q=0.5")],
    &[("Content-Length", "5"), ("Expect", "100-continue")],
    &[("Transfer-Encoding", "chunked"), ("Trailer", "X-T")],
    &[("Range", "bytes=0-1"), ("If-None-Match", "\"x\""), ("Connection", "Upgrade"), ("Upgrade", "websocket")],
];

impl Config {
    fn to_json(&self) -> Value {
        json!({"status": self.status, "len": self.len, "declared": self.declared,
               "threshold": self.threshold.map(|t| t.to_string()),
               "version": format!("{}.{}", self.version.0, self.version.1), "head": self.head,
               "te": self.te, "piece": if self.piece == usize::MAX { "irregular".to_string() } else if self.piece == INTERRUPTING { "irregular+interrupted".to_string() } else { self.piece.to_string() },
               "extra_headers": self.extra_headers,
               "request_headers": REQ_EXTRA[self.req_extra].iter().map(|(n, v)| format!("{}: {}", n, v)).collect::<Vec<_>>(), "req_extra": self.req_extra})
    }
    fn from_json(c: &Value) -> Config {
        let ver = c["version"].as_str().unwrap_or("1.1").as_bytes().to_vec();
        Config {
            status: c["status"].as_u64().unwrap_or(200) as u16,
            len: c["len"].as_u64().unwrap_or(0) as usize,
            declared: c["declared"].as_bool().unwrap_or(true),
            threshold: c["threshold"].as_str().and_then(|s| s.parse().ok()),
            version: (ver[0] - b'0', ver[2] - b'0'),
            head: c["head"].as_bool().unwrap_or(false),
            te: c["te"].as_str().map(|s| s.to_string()),
            piece: match c["piece"].as_str() {
                Some("irregular") => usize::MAX,
                Some("irregular+interrupted") => INTERRUPTING,
                Some(s) => s.parse().unwrap_or(0),
                None => 0,
            },
            extra_headers: c["extra_headers"].as_u64().unwrap_or(0) as usize,
            req_extra: c["req_extra"].as_u64().unwrap_or(0) as usize,
        }
    }
}

fn body_bytes(n: usize) -> Vec<u8> {
    // contains CR, LF, digits and hex letters so that a framing slip shows
    let pat = b"0\r\n\r\nHTTP/1.1 200 OK\r\nab1f\r\n";
    (0..n).map(|i| pat[i % pat.len()]).collect()
}

pub fn judge(cfg: &Config) -> Result<String, (String, String)> {
    let body = body_bytes(cfg.len);
    let mut headers = Vec::new();
    if cfg.extra_headers >= 1 {
        headers.push(Header::from_bytes(&b"X-A"[..], &b"some value; with=stuff"[..]).unwrap());
    }
    if cfg.extra_headers >= 2 {
        headers.push(Header::from_bytes(&b"Content-Type"[..], &b"text/plain"[..]).unwrap());
    }
    let mut resp = Response::new(
        StatusCode(cfg.status),
        headers,
        PieceReader::new(body.clone(), cfg.piece),
        if cfg.declared { Some(cfg.len) } else { None },
        None,
    );
    if let Some(t) = cfg.threshold {
        resp = resp.with_chunked_threshold(t);
    }
    let mut rq = vec![Header::from_bytes(&b"Host"[..], &b"h"[..]).unwrap()];
    if let Some(te) = &cfg.te {
        rq.push(Header::from_bytes(&b"TE"[..], te.as_bytes()).unwrap());
    }
    for (n, v) in REQ_EXTRA[cfg.req_extra] {
        rq.push(Header::from_bytes(n.as_bytes(), v.as_bytes()).unwrap());
    }
    let mut out = Vec::new();
    let r = std::panic::catch_unwind(std::panic::AssertUnwindSafe(|| {
        resp.raw_print(
            &mut out,
            HTTPVersion(cfg.version.0, cfg.version.1),
            &rq,
            cfg.head,
            None,
        )
    }));
    match r {
        Err(_) => return Err(("panic".into(), "raw_print panicked".into())),
        Ok(Err(e)) => return Err(("io-error".into(), format!("raw_print failed: {}", e))),
        Ok(Ok(())) => (),
    }
    let m = match parse_one(&out, 0, cfg.head) {
        Ok(m) => m,
        Err(e) => {
            return Err((
                if e.truncated { "truncated".into() } else { "malformed".into() },
                format!("client parser: {} at byte {}", e.what, e.at),
            ))
        }
    };
    if m.len != out.len() {
        return Err((
            "trailing-bytes".into(),
            format!("{} bytes follow the end of the message", out.len() - m.len),
        ));
    }
    if m.status != cfg.status {
        return Err(("status".into(), format!("client recovers status {}", m.status)));
    }
    // (which HTTP-version the status line carries is not part of the statement)
    let no_body = cfg.head || (100..200).contains(&cfg.status) || cfg.status == 204 || cfg.status == 304;
    if no_body {
        if !m.body.is_empty() || !m.after_upgrade.is_empty() {
            return Err(("body-forbidden".into(), "body bytes sent where none are allowed".into()));
        }
    } else if m.body != body {
        return Err((
            "body".into(),
            format!("client recovers {} body bytes, application gave {}", m.body.len(), body.len()),
        ));
    }
    Ok(format!("{:?}/{}", std::mem::discriminant(&m.framing), no_body))
}

fn lengths(tier: Tier) -> &'static [usize] {
    match tier {
        Tier::Quick => &LENGTHS_Q,
        Tier::Thorough => &LENGTHS_T,
    }
}
fn pieces(tier: Tier) -> &'static [usize] {
    match tier {
        Tier::Quick => &PIECES_Q,
        Tier::Thorough => &PIECES_T,
    }
}

fn space(tier: Tier) -> Space {
    Space::new(&[
        STATUSES.len(),
        lengths(tier).len(),
        2,
        THRESHOLD_KINDS,
        2,
        2,
        TES.len(),
        pieces(tier).len(),
        if tier == Tier::Quick { 2 } else { 3 },
        REQ_EXTRA.len(),
    ])
}

fn decode(idx: u64, tier: Tier) -> Config {
    let d = space(tier).decode(idx);
    let len = lengths(tier)[d[1]];
    let threshold = match d[3] {
        0 => Some(0),
        1 => Some(1),
        2 => Some(len.saturating_sub(1)),
        3 => Some(len),
        4 => Some(len + 1),
        5 => None,
        _ => Some(usize::MAX),
    };
    Config {
        status: STATUSES[d[0]],
        len,
        declared: d[2] == 0,
        threshold,
        version: if d[4] == 0 { (1, 0) } else { (1, 1) },
        head: d[5] == 1,
        te: TES[d[6]].map(|s| s.to_string()),
        piece: pieces(tier)[d[7]],
        extra_headers: d[8],
        req_extra: d[9],
    }
}

/// A writer that accepts `ok` bytes and then fails for good.
struct FailWriter {
    ok: usize,
}

impl std::io::Write for FailWriter {
    fn write(&mut self, b: &[u8]) -> std::io::Result<usize> {
        if self.ok == 0 {
            return Err(std::io::Error::new(std::io::ErrorKind::BrokenPipe, "peer is gone"));
        }
        let n = b.len().min(self.ok);
        self.ok -= n;
        Ok(n)
    }
    fn flush(&mut self) -> std::io::Result<()> {
        Ok(())
    }
}

const FAIL_POINTS: [usize; 5] = [0, 17, 600, 1500, 1700];

/// Prints a DIFFERENT response (404, 24 headers: a head of ~1.6 KiB, 100 body bytes) on this
/// thread into a writer that breaks after `ok` bytes, and ignores the outcome: a response
/// that could not be sent must leave nothing behind for the next one printed by the thread.
fn print_into_broken_writer(ok: usize) {
    let hs: Vec<Header> = (0..24)
        .map(|i| Header::from_bytes(&b"Set-Cookie"[..], format!("session{}=0123456789abcdefghijklmnopqrstuvwxyz0123456789; Path=/", i).as_bytes()).unwrap())
        .collect();
    let resp = Response::new(StatusCode(404), hs, std::io::Cursor::new(vec![b'n'; 100]), Some(100), None);
    let rq = vec![Header::from_bytes(&b"Host"[..], &b"h"[..]).unwrap()];
    let mut w = FailWriter { ok };
    let _ = std::panic::catch_unwind(std::panic::AssertUnwindSafe(|| {
        let _ = resp.raw_print(&mut w, HTTPVersion(1, 1), &rq, false, None);
    }));
}

fn run_cfg_after_failed_write(cfg: &Config, acc: &mut Acc) {
    for ok in FAIL_POINTS {
        print_into_broken_writer(ok);
        acc.evals += 1;
        if let Err((key, desc)) = judge(cfg) {
            acc.violation(
                &format!("after-failed-write:{}", key),
                format!("{} for {} printed right after another response of the same thread had failed after {} bytes", desc, cfg.to_json(), ok),
                json!({"config": cfg.to_json(), "after_failed_write": ok}),
            );
            return;
        }
    }
}

fn run_cfg(cfg: &Config, acc: &mut Acc) {
    acc.evals += 1;
    match judge(cfg) {
        Ok(class) => {
            if cfg.len > 0 {
                acc.nontrivial += 1;
            }
            acc.outcomes.insert(hash_str(&format!("{}/{}", class, cfg.status / 100)));
            acc.sample(json!({"config": cfg.to_json(), "class": class}));
        }
        Err((key, desc)) => {
            let class = if cfg.head {
                "head"
            } else if (100..200).contains(&cfg.status) || cfg.status == 204 || cfg.status == 304 {
                "nobody-status"
            } else if cfg.version == (1, 0) {
                "http10"
            } else {
                "http11"
            };
            acc.violation(
                &format!("{}:{}", key, class),
                format!("{} for {}", desc, cfg.to_json()),
                json!({"config": cfg.to_json()}),
            );
        }
    }
}

// ------------------------------------------------------------------------- L1 slice
// The same oracle through a real connection: binds Request::respond's use of raw_print
// (HEAD suppression, flush, HTTP version of the request) to the L0 product above.

const L1_STATUSES: [u16; 12] = [200, 201, 204, 205, 299, 300, 304, 400, 404, 500, 599, 999];
const L1_LENGTHS: [usize; 4] = [0, 5, 8193, 40000];

/// request methods of the connection slice: only HEAD changes what a response carries
const L1_METHODS: [&str; 6] = ["GET", "HEAD", "CONNECT", "OPTIONS", "DELETE", "PURGE"];

fn l1_space() -> Space {
    // status x length x declared x method(GET/HEAD) x version x TE(absent/chunked/identity)
    Space::new(&[L1_STATUSES.len(), L1_LENGTHS.len(), 2, L1_METHODS.len(), 2, 3])
}

fn l1_run(idx: u64, acc: &mut Acc, replaying: bool) {
    use crate::judge::{judge_conn, JudgeOpts};
    use crate::runner::*;
    use tiny_http::verif_rt::core::RunCfg;
    let d = l1_space().decode(idx);
    let (status, len, declared, method, v11, te) = (L1_STATUSES[d[0]], L1_LENGTHS[d[1]], d[2] == 0, L1_METHODS[d[3]], d[4] == 1, d[5]);
    let head = method == "HEAD";
    let mut req = format!("{} /l1 HTTP/{}\r\nHost: t\r\n", method, if v11 { "1.1" } else { "1.0" });
    if !v11 {
        req.push_str("Connection: keep-alive\r\n");
    }
    match te {
        1 => req.push_str("TE: chunked\r\n"),
        2 => req.push_str("TE: identity\r\n"),
        _ => (),
    }
    req.push_str("\r\n");
    let mut bytes = req.into_bytes();
    // a second request shows that the client knew where the first response ended
    bytes.extend_from_slice(b"GET /after HTTP/1.1\r\nHost: t\r\n\r\n");
    let plans = vec![
        ReqPlan { read: ReadPlan::None, finish: Finish::Respond(RespSpec { status, body_len: len, declared, threshold: None, headers: 0 }) },
        ReqPlan::simple(),
    ];
    let sc = Scenario::one_conn(vec![bytes], AppProgram::with_plans(plans));
    let (obs, res) = run_scenario(&sc, &RunCfg { trace: replaying, ..RunCfg::default() });
    let (fails, _) = judge_conn(&sc, &obs, &res, &JudgeOpts::default());
    acc.evals += 1;
    acc.execs += 1;
    acc.points += res.points;
    acc.leaked_threads += res.leaked_threads as u64;
    if len > 0 {
        acc.nontrivial += 1;
    }
    acc.count("through_a_real_connection", 1);
    for f in fails {
        if f.clause == "machinery" {
            acc.machinery_errors.push(f.desc);
            continue;
        }
        let class = if head { "head" } else if status == 204 || status == 304 { "nobody-status" } else if v11 { "http11" } else { "http10" };
        acc.violation(
            &format!("connection:{}:{}", f.clause, class),
            format!("[{}] {} (status {}, length {}, declared {}, method {}, HTTP/1.{}, TE kind {})", f.clause, f.desc, status, len, declared, method, v11 as u8, te),
            json!({"l1_index": idx, "scenario": scenario_json(&sc)}),
        );
    }
}

/// clauses of the shared feature product (props/product.rs) that belong to this property
const PRODUCT_CLAUSES: &[&str] = &["response-malformed", "response-truncated", "response-body", "content-length"];

impl Check for C04 {
    fn id(&self) -> &'static str {
        "C04"
    }
    fn level(&self) -> &'static str {
        "exploration"
    }
    fn n_items(&self, tier: Tier) -> u64 {
        space(tier).size() + l1_space().size() + crate::props::product::n_items(tier) + STATUS_SWEEP_ITEMS
    }
    fn chunk(&self, _tier: Tier) -> u64 {
        2_000
    }
    fn run_item(&self, idx: u64, tier: Tier, acc: &mut Acc) {
        let n0 = space(tier).size();
        if idx < n0 {
            let cfg = decode(idx, tier);
            run_cfg(&cfg, acc);
            if cfg.piece == 0 && cfg.extra_headers == 0 && cfg.req_extra == 0 {
                run_cfg_after_failed_write(&cfg, acc);
            }
        } else if idx < n0 + l1_space().size() {
            l1_run(idx - n0, acc, false);
        } else if idx < n0 + l1_space().size() + crate::props::product::n_items(tier) {
            crate::props::product::run_item(idx - n0 - l1_space().size(), tier, acc, PRODUCT_CLAUSES);
        } else {
            // every status code 100..=999, one item per hundred
            let hundred = idx - n0 - l1_space().size() - crate::props::product::n_items(tier);
            for status in (100 + hundred * 100)..(200 + hundred * 100) {
                for len in [0usize, 5, 40000] {
                    for declared in [true, false] {
                        for version in [(1u8, 0u8), (1, 1)] {
                            for head in [false, true] {
                                let cfg = Config { status: status as u16, len, declared, threshold: None, version, head, te: None, piece: 0, extra_headers: 0, req_extra: 0 };
                                run_cfg(&cfg, acc);
                            }
                        }
                    }
                }
            }
        }
    }
    fn crash_is_violation(&self) -> bool {
        // a process abort (e.g. a panic while unwinding from a panic inside the encoder) while
        // one response is being printed: that response is certainly not a well-formed message
        true
    }
    fn describe_item(&self, idx: u64, tier: Tier) -> (String, Value) {
        let n0 = space(tier).size();
        if idx < n0 {
            let cfg = decode(idx, tier);
            ("raw_print".to_string(), json!({"config": cfg.to_json()}))
        } else if idx < n0 + l1_space().size() {
            ("connection".to_string(), json!({"l1_index": idx - n0}))
        } else if idx < n0 + l1_space().size() + crate::props::product::n_items(tier) {
            ("product".to_string(), json!({"product_index": idx - n0 - l1_space().size()}))
        } else {
            ("status-sweep".to_string(), json!({"status_hundred": idx - n0 - l1_space().size() - crate::props::product::n_items(tier) + 1}))
        }
    }
    fn rule(&self, tier: Tier) -> String {
        let own = format!(
            "full product status{:?} x body length{:?} x declared/undeclared x threshold{{0,1,len-1,len,len+1,default,usize::MAX}} x version{{1.0,1.1}} x HEAD/GET x TE{:?} x reader piece size{:?} (0=whole, max=irregular cycle, max-1=irregular cycle with a transient Interrupted error before every piece) x extra headers 0..{} x 6 sets of further request headers (Connection: close / keep-alive, Content-Length + Expect, Transfer-Encoding, Range + conditional + Upgrade: none is an input to the framing) = {} responses printed by Response::raw_print (those with whole-piece readers and no extra headers also right after another response printed by the same thread into a writer that breaks after 0 / 17 / 600 / 1500 / 1700 bytes: nothing of a response that could not be sent may reach the next one); and EVERY status code 100..999 x length {{0, 5, 40000}} x declared/undeclared x version x HEAD/GET; each output must be consumed exactly by the independent RFC 7230 client parser, which must recover the status and exactly the body; plus {} responses sent through a real connection (status x length {{0,5,8193,40000}} x declared/undeclared x GET/HEAD/CONNECT/OPTIONS/DELETE/PURGE x HTTP/1.0 keep-alive/1.1 x TE absent/chunked/identity, followed by a second request whose answer must be found right after); non-trivial = body length > 0",
            STATUSES, lengths(tier), TES, pieces(tier), if tier == Tier::Quick { 1 } else { 2 }, space(tier).size(), l1_space().size()
        );
        format!("{} || {} {:?}", own, crate::props::product::RULE, PRODUCT_CLAUSES)
    }
    fn assumptions(&self) -> Vec<String> {
        vec![
            "a Content-Length header in a 204/1xx response is tolerated (a conforming client ignores it); only body bytes are forbidden there".into(),
            "status codes are three-digit; lengths, when declared, are correct; header values are free of CR/LF (quantifier of the property)".into(),
        ]
    }
    fn replay(&self, replay: &Value, acc: &mut Acc) {
        if crate::props::product::is_product_replay(replay) {
            crate::props::product::replay(replay, acc, PRODUCT_CLAUSES);
            return;
        }
        if replay["kind"].as_str() == Some("crash") {
            // a crash is replayed in a subprocess: this process would die with it
            let item = replay["item"].as_u64().unwrap_or(0);
            let tier = if replay["tier"].as_str() == Some("quick") { Tier::Quick } else { Tier::Thorough };
            let exe = std::env::current_exe().unwrap();
            let out = std::process::Command::new(exe).args(["C04", "--tier", tier.name(), "--run-item", &item.to_string()]).output();
            match out {
                Ok(o) if o.status.success() => {
                    acc.notes.insert(format!("item {} runs to completion now", item));
                }
                Ok(o) => acc.violation(
                    &format!("process-abort:{}", replay["class"].as_str().unwrap_or("raw_print")),
                    format!("the process died ({:?}): {}", o.status, String::from_utf8_lossy(&o.stderr).lines().last().unwrap_or("")),
                    replay.clone(),
                ),
                Err(e) => acc.machinery_errors.push(e.to_string()),
            }
            return;
        }
        if let Some(i) = replay["l1_index"].as_u64() {
            l1_run(i, acc, true);
            return;
        }
        let cfg = Config::from_json(&replay["config"]);
        acc.notes.insert(format!("replaying {}", cfg.to_json()));
        if replay.get("after_failed_write").is_some() {
            run_cfg_after_failed_write(&cfg, acc);
            return;
        }
        run_cfg(&cfg, acc);
    }
}
