//! C18 — 100 Continue is sent exactly when the application first asks for the body.

use crate::gen::*;
use crate::infra::*;
use crate::judge::*;
use crate::l1::*;
use crate::runner::*;
use serde_json::Value;
use std::sync::OnceLock;

pub struct C18;

/// This check is cheap: the quick tier already runs the full alphabet (what used to be the
/// thorough tier); `deep` marks the extras that only the thorough tier adds.
#[allow(dead_code)]
fn full(_t: Tier) -> bool {
    true
}
#[allow(dead_code)]
fn deep(t: Tier) -> bool {
    t == Tier::Thorough
}

#[derive(Clone, Debug)]
struct Case {
    class: String,
    sc: Scenario,
    nontrivial: bool,
}

fn programs() -> Vec<(&'static str, ReqPlan)> {
    let rd = |calls: usize| ReadPlan::Sizes {
        sizes: vec![700],
        limit: None,
        extra: 1,
        as_reader_calls: calls,
    };
    vec![
        ("answer-without-body", ReqPlan { read: ReadPlan::None, finish: Finish::Respond(RespSpec::ok(3)) }),
        ("ask-once-read-all", ReqPlan { read: rd(1), finish: Finish::Respond(RespSpec::ok(3)) }),
        ("ask-three-times", ReqPlan { read: rd(3), finish: Finish::Respond(RespSpec::ok(3)) }),
        ("read-to-end", ReqPlan { read: ReadPlan::ReadToEnd, finish: Finish::Respond(RespSpec::ok(3)) }),
        ("drop-without-body", ReqPlan { read: ReadPlan::None, finish: Finish::Drop }),
        ("ask-then-raw-writer", ReqPlan { read: rd(1), finish: Finish::Writer { parts: raw_response_parts(1, 4, 2), flush: true } }),
        // every way of finishing WITHOUT ever asking for the body
        ("raw-writer-without-body", ReqPlan { read: ReadPlan::None, finish: Finish::Writer { parts: raw_response_parts(1, 4, 2), flush: true } }),
        ("raw-writer-unused-without-body", ReqPlan { read: ReadPlan::None, finish: Finish::Writer { parts: vec![], flush: false } }),
        ("panic-without-body", ReqPlan { read: ReadPlan::None, finish: Finish::Panic }),
    ]
}

fn partial_program(n: usize) -> (&'static str, ReqPlan) {
    ("partial-read", ReqPlan { read: ReadPlan::part(3, (n / 2).max(1)), finish: Finish::Respond(RespSpec::ok(3)) })
}

fn cases(tier: Tier) -> &'static Vec<Case> {
    static Q: OnceLock<Vec<Case>> = OnceLock::new();
    static T: OnceLock<Vec<Case>> = OnceLock::new();
    let cell = if !full(tier) { &Q } else { &T };
    cell.get_or_init(|| {
        let mut v = Vec::new();
        let expects: Vec<Option<&str>> = vec![None, Some("100-continue"), Some("100-Continue"), Some("100-CONTINUE")];
        let lens: Vec<usize> = if full(tier) { vec![0, 5, 1024, 1025, 3000] } else { vec![0, 5, 1025] };
        for e in &expects {
            for &n in &lens {
                let mut progs = programs();
                if n > 1 {
                    progs.push(partial_program(n));
                }
                for (pl, plan) in progs {
                    for withhold in [false, true] {
                        if withhold && e.is_none() {
                            continue;
                        }
                        let mut positions: Vec<usize> = vec![0, 1];
                        if n == 5 || n == 1025 {
                            // after a long history of plain exchanges on the connection
                            positions.extend(history_lengths(deep(tier)));
                        }
                        for pos in positions {
                            for chunked in [false, true] {
                                if chunked && pos > 1 {
                                    continue;
                                }
                                let reads_all = matches!(plan.read, ReadPlan::ReadToEnd | ReadPlan::Sizes { limit: None, .. });
                                // unread chunked bodies are the subject of C09, not of this property
                                if chunked && (n == 0 || !reads_all || !full(tier) && pos == 1) {
                                    continue;
                                }
                                let body = payload(n);
                                let mut head = format!("POST /c HTTP/1.1\r\nHost: t\r\n");
                                if let Some(x) = e {
                                    head.push_str(&format!("Expect: {}\r\n", x));
                                }
                                let wire_body = if chunked {
                                    head.push_str("Transfer-Encoding: chunked\r\n\r\n");
                                    crate::gen::chunked(&body, &[n], SizeSyntax::Lower)
                                } else {
                                    head.push_str(&format!("Content-Length: {}\r\n\r\n", n));
                                    body.clone()
                                };
                                let mut script: Vec<(usize, Step)> = Vec::new();
                                let mut first = Vec::new();
                                if pos == 1 {
                                    first.extend_from_slice(&get("/before"));
                                } else if pos > 1 {
                                    script.push((0, Step::Send(history(pos))));
                                    script.push((0, Step::Settle));
                                }
                                first.extend_from_slice(head.as_bytes());
                                let touches = !matches!(plan.read, ReadPlan::None);
                                if withhold {
                                    script.push((0, Step::Send(first)));
                                    script.push((0, Step::SendIfContinue(wire_body)));
                                    script.push((0, Step::Settle));
                                } else {
                                    first.extend_from_slice(&wire_body);
                                    // a follow-up request shows that the connection stays in step
                                    first.extend_from_slice(&get("/after"));
                                    script.push((0, Step::Send(first)));
                                    script.push((0, Step::Settle));
                                }
                                let mut plans = Vec::new();
                                for _ in 0..pos {
                                    plans.push(ReqPlan::simple());
                                }
                                plans.push(plan.clone());
                                plans.push(ReqPlan::simple());
                                let sc = Scenario {
                                    conns: vec![ConnSpec::default()],
                                    script,
                                    app: AppProgram { plans, recv: RecvStyle::Recv, deferred: false, thread_per_request: false },
                                    probe_after: false,
                                    idle_after: false,
                                };
                                v.push(Case {
                                    class: format!(
                                        "{}:{}:{}",
                                        if e.is_some() { "expecting" } else { "not-expecting" },
                                        pl,
                                        if withhold { "client-withholds-body" } else { "client-sends-body" }
                                    ),
                                    sc,
                                    nontrivial: e.is_some() && (touches || withhold),
                                });
                            }
                        }
                    }
                }
            }
        }
        v
    })
}

fn class_of(sc: &Scenario) -> String {
    let cs = client_stream(sc, 0);
    let expecting = cs.bytes.windows(7).any(|w| w.eq_ignore_ascii_case(b"Expect:"));
    let withhold = sc.script.iter().any(|(_, s)| matches!(s, Step::SendIfContinue(_)));
    let plan = &sc.app.plans[sc.app.plans.len().saturating_sub(2)];
    let mut pl = "unknown-program";
    for (l, p) in programs() {
        if p == *plan {
            pl = l;
        }
    }
    if let ReadPlan::Sizes { limit: Some(_), .. } = plan.read {
        pl = "partial-read";
    }
    format!(
        "{}:{}:{}",
        if expecting { "expecting" } else { "not-expecting" },
        pl,
        if withhold { "client-withholds-body" } else { "client-sends-body" }
    )
}

/// clauses of the shared feature product (props/product.rs) that belong to this property
const PRODUCT_CLAUSES: &[&str] = &["continue-count"];

impl Check for C18 {
    fn id(&self) -> &'static str {
        "C18"
    }
    fn level(&self) -> &'static str {
        "exploration"
    }
    fn n_items(&self, tier: Tier) -> u64 {
        cases(tier).len() as u64 + crate::props::product::n_items(tier)
    }
    fn chunk(&self, _tier: Tier) -> u64 {
        16
    }
    fn run_item(&self, idx: u64, tier: Tier, acc: &mut Acc) {
        let base = cases(tier).len() as u64;
        if idx >= base {
            crate::props::product::run_item(idx - base, tier, acc, PRODUCT_CLAUSES);
            return;
        }
        let c = &cases(tier)[idx as usize];
        let class = c.class.clone();
        check_scenario(&c.sc, acc, &JudgeOpts::default(), c.nontrivial, &|f, _| std_key(f, &class), &|_| vec![]);
    }
    fn rule(&self, tier: Tier) -> String {
        let own = format!(
            "Expect {{absent, 100-continue, 100-Continue, 100-CONTINUE}} x body length {:?} (Content-Length and chunked) x application program {:?}+partial-read x client {{sends the body immediately, withholds the body until it has parsed an interim 100 response (reactive client)}} x position 1..2 in a pipeline, and (lengths 5 and 1025, Content-Length) after a history of 64 / 100 / 1024 (thorough: 19 lengths from 63 to 4097) answered exchanges; {} conversations; oracle: exactly one interim 100 iff the program asks for the body of an expecting request, placed after the predecessor's final response and before its own; the withheld body is then read in full; none otherwise; non-trivial = expecting request whose body is asked for or withheld",
            if full(tier) { vec![0, 5, 1024, 1025, 3000] } else { vec![0, 5, 1025] },
            programs().iter().map(|p| p.0).collect::<Vec<_>>(), cases(tier).len()
        );
        format!("{} || {} {:?}", own, crate::props::product::RULE, PRODUCT_CLAUSES)
    }
    fn assumptions(&self) -> Vec<String> {
        vec!["a withholding client that receives a final response without having seen a 100 closes its sending side; what happens to body bytes sent after such an answer is not judged".into()]
    }
    fn replay(&self, replay: &Value, acc: &mut Acc) {
        if crate::props::product::is_product_replay(replay) {
            crate::props::product::replay(replay, acc, PRODUCT_CLAUSES);
            return;
        }
        let sc = scenario_from_json(&replay["scenario"]);
        let class = class_of(&sc);
        replay_scenario(replay, acc, &JudgeOpts::default(), &|f, _| std_key(f, &class), &|_| vec![]);
    }
}
