//! C10 — malformed or unsupported requests never reach the application and never hang.

use crate::gen::*;
use crate::infra::*;
use crate::judge::*;
use crate::l1::*;
use crate::runner::*;
use serde_json::Value;
use std::sync::OnceLock;

pub struct C10;

/// This check is cheap: the quick tier already runs the full alphabet (what used to be the
/// thorough tier); `deep` marks the extras that only the thorough tier adds.
#[allow(dead_code)]
fn full(_t: Tier) -> bool {
    true
}
#[allow(dead_code)]
fn deep(t: Tier) -> bool {
    t == Tier::Thorough
}

#[derive(Clone, Debug)]
struct Case {
    class: &'static str,
    label: String,
    bytes: Vec<u8>,
    deferred: bool,
}

/// (class, request bytes)
fn bad_requests(tier: Tier) -> Vec<(&'static str, Vec<u8>)> {
    let mut v: Vec<(&'static str, Vec<u8>)> = Vec::new();
    v.push(("request-line-1-field", b"GET\r\nHost: t\r\n\r\n".to_vec()));
    v.push(("request-line-2-fields", b"GET /x\r\nHost: t\r\n\r\n".to_vec()));
    for tok in ["HTTP/1.2", "HTTP/2", "http/1.1", "HTTP/11", "FOO"] {
        v.push(("version-token-unknown", format!("GET /x {}\r\nHost: t\r\n\r\n", tok).into_bytes()));
    }
    v.push(("header-without-colon", b"GET /x HTTP/1.1\r\nHost t\r\n\r\n".to_vec()));
    v.push(("header-without-colon", b"GET /x HTTP/1.1\r\nHost: t\r\nnocolonhere\r\nX-A: b\r\n\r\n".to_vec()));
    v.push(("non-ascii-request-line", b"GET /caf\xc3\xa9 HTTP/1.1\r\nHost: t\r\n\r\n".to_vec()));
    v.push(("non-ascii-header-name", b"GET /x HTTP/1.1\r\nX-\xe9: v\r\n\r\n".to_vec()));
    v.push(("non-ascii-header-value", b"GET /x HTTP/1.1\r\nHost: t\r\nX-A: caf\xc3\xa9\r\n\r\n".to_vec()));
    let expects: Vec<&str> = if full(tier) {
        vec!["100-continuee", "100-CONTINUEE", "100-Continuee", "200-ok", "200-OK", "200-Ok", "100-continue, x", "100-CONTINUE, X", "100-Continue, x"]
    } else {
        vec!["100-continuee", "200-OK", "100-Continue, x"]
    };
    for e in expects {
        v.push(("expect-unsupported", format!("POST /e HTTP/1.1\r\nHost: t\r\nExpect: {}\r\nContent-Length: 3\r\n\r\nabc", e).into_bytes()));
        v.push(("expect-unsupported", format!("GET /e HTTP/1.1\r\nHost: t\r\nexpect: {}\r\n\r\n", e).into_bytes()));
    }
    // the refused request declares a body that the client has not sent (and does not send): the
    // 417 and the close may not wait for it
    for e in ["100-continuee", "200-OK", "100-Continue, x"] {
        for framing in ["Content-Length: 3", "Content-Length: 1024", "Content-Length: 2000", "Transfer-Encoding: chunked"] {
            v.push(("expect-unsupported-body-withheld", format!("POST /e HTTP/1.1\r\nHost: t\r\nExpect: {}\r\n{}\r\n\r\n", e, framing).into_bytes()));
        }
    }
    // the same classes on HTTP/1.0 requests (the version must not change the verdict)
    let on_10: Vec<(&'static str, Vec<u8>)> = v
        .iter()
        .filter(|(c, b)| !c.starts_with("version") && !c.starts_with("request-line") && b.windows(8).any(|w| w == b"HTTP/1.1"))
        .filter(|(c, _)| full(tier) || *c == "expect-unsupported" || *c == "expect-unsupported-body-withheld" || *c == "header-without-colon")
        .map(|(c, b)| {
            let s = String::from_utf8_lossy(b).replacen("HTTP/1.1", "HTTP/1.0", 1);
            // bytes >= 0x80 do not survive the lossy round trip: patch the token in place instead
            let mut out = b.clone();
            if let Some(p) = out.windows(8).position(|w| w == b"HTTP/1.1") {
                out[p + 7] = b'0';
            }
            let _ = s;
            (*c, out)
        })
        .collect();
    v.extend(on_10);
    for ver in ["HTTP/2.0", "HTTP/3.0"] {
        v.push(("version-above-1.1", format!("GET /v {}\r\nHost: t\r\n\r\n", ver).into_bytes()));
        v.push(("version-above-1.1", format!("POST /v {}\r\nHost: t\r\nContent-Length: 4\r\n\r\nbody", ver).into_bytes()));
        // the refused request says nothing about the connection: whatever its own
        // Connection header asks for, the connection remains usable for what follows
        for conn in ["close", "Upgrade", "keep-alive", "foo, close"] {
            v.push(("version-above-1.1-with-connection-header", format!("GET /v {}\r\nHost: t\r\nConnection: {}\r\n\r\n", ver, conn).into_bytes()));
        }
        v.push(("version-above-1.1-with-connection-header", format!("POST /v {}\r\nHost: t\r\nConnection: close\r\nContent-Length: 4\r\n\r\nbody", ver).into_bytes()));
    }
    v
}

fn cases(tier: Tier) -> &'static Vec<Case> {
    static Q: OnceLock<Vec<Case>> = OnceLock::new();
    static T: OnceLock<Vec<Case>> = OnceLock::new();
    let cell = if !full(tier) { &Q } else { &T };
    cell.get_or_init(|| {
        let mut v = Vec::new();
        let max_len = if deep(tier) { 5 } else { 4 };
        for (class, bad) in bad_requests(tier) {
            for len in 1..=max_len {
                for pos in 0..len {
                    // valid neighbours: every combination of GET / POST-with-small-body
                    let others = len - 1;
                    for mask in 0..(1u32 << others) {
                        if !full(tier) && mask != 0 && mask != (1 << others) - 1 {
                            continue;
                        }
                        let mut bytes = Vec::new();
                        let mut o = 0;
                        for i in 0..len {
                            if i == pos {
                                bytes.extend_from_slice(&bad);
                            } else {
                                if mask & (1 << o) != 0 {
                                    bytes.extend_from_slice(&post_cl(&format!("/p{}", i), b"small-body"));
                                } else {
                                    bytes.extend_from_slice(&get(&format!("/g{}", i)));
                                }
                                o += 1;
                            }
                        }
                        for deferred in [false, true] {
                            v.push(Case {
                                class,
                                label: format!("{} at {}/{} neighbours {:b} deferred={}", class, pos + 1, len, mask, deferred),
                                bytes: bytes.clone(),
                                deferred,
                            });
                        }
                    }
                }
            }
        }
        // every class after a long history of plain exchanges on the same connection
        for (class, bad) in bad_requests(tier) {
            for h in history_lengths(deep(tier)) {
                let mut bytes = history(h);
                bytes.extend_from_slice(&bad);
                bytes.extend_from_slice(&get("/after"));
                v.push(Case { class, label: format!("{} after a history of {} exchanges", class, h), bytes, deferred: false });
            }
        }
        v
    })
}

fn scenario(c: &Case) -> Scenario {
    let mut sc = Scenario::one_conn(split_history(&c.bytes), AppProgram::simple());
    if c.deferred {
        // the application answers only after the client's stream has ended
        sc.app.deferred = true;
        sc.script.push((0, Step::CloseWrite));
        sc.script.push((0, Step::Settle));
        sc.script.push((0, Step::AppGo));
        sc.script.push((0, Step::Settle));
    }
    sc
}

fn class_of(bytes: &[u8], tier: Tier) -> &'static str {
    for (class, bad) in bad_requests(tier) {
        if bytes.windows(bad.len()).any(|w| w == &bad[..]) {
            return class;
        }
    }
    "unknown-class"
}

impl Check for C10 {
    fn id(&self) -> &'static str {
        "C10"
    }
    fn level(&self) -> &'static str {
        "exploration"
    }
    fn n_items(&self, tier: Tier) -> u64 {
        cases(tier).len() as u64
    }
    fn chunk(&self, _tier: Tier) -> u64 {
        16
    }
    fn run_item(&self, idx: u64, tier: Tier, acc: &mut Acc) {
        let c = &cases(tier)[idx as usize];
        let sc = scenario(c);
        let class = c.class;
        check_scenario(&sc, acc, &JudgeOpts::default(), true, &|f, _| std_key(f, class), &|_| vec![]);
    }
    fn rule(&self, tier: Tier) -> String {
        let classes: std::collections::BTreeSet<&str> = bad_requests(tier).iter().map(|b| b.0).collect();
        format!(
            "{} malformed/unsupported request forms in classes {:?}, each placed at every position of a pipeline of 1..{} requests with every combination of valid neighbours (GET / POST with a small body), application answering immediately or only after the client's stream has ended; every form also after a history of 64 / 100 / 1024 (thorough: 19 lengths from 63 to 4097) answered exchanges on the same connection; {} conversations; the reference model fixes what is delivered (never the rejected request), the order and status of what the client sees (earlier answers first, then 400+close / 417+close / close / 505 and continued service) and that the conversation terminates (a deadlock report is a violation)",
            bad_requests(tier).len(), classes, if full(tier) { 4 } else { 3 }, cases(tier).len()
        )
    }
    fn replay(&self, replay: &Value, acc: &mut Acc) {
        let sc = scenario_from_json(&replay["scenario"]);
        let cs = client_stream(&sc, 0);
        let class = class_of(&cs.bytes, Tier::Thorough);
        replay_scenario(replay, acc, &JudgeOpts::default(), &|f, _| std_key(f, class), &|_| vec![]);
    }
}
