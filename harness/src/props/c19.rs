//! C19 — response header policy: protected names, one Content-Type, automatic Date and
//! Server, constructors declare the byte length.  L0: exhaustive header lists.

use crate::infra::*;
use serde_json::{json, Value};
use std::io::Cursor;
use std::time::SystemTime;
use tiny_http::{HTTPVersion, Header, Response, StatusCode};

pub struct C19;

/// This check is cheap: the quick tier already runs the full alphabet (what used to be the
/// thorough tier); `deep` marks the extras that only the thorough tier adds.
#[allow(dead_code)]
fn full(_t: Tier) -> bool {
    true
}
#[allow(dead_code)]
fn deep(t: Tier) -> bool {
    t == Tier::Thorough
}

/// (name, value) atoms; names appear in three letter cases
fn atoms() -> Vec<(String, String)> {
    let base: [(&str, &str); 12] = [
        ("Connection", "close"),
        ("Trailer", "X-T"),
        ("Transfer-Encoding", "chunked"),
        ("Upgrade", "h2c"),
        ("Content-Length", "3"),
        ("Content-Length", "x"),
        ("Content-Type", "text/html"),
        ("Content-Type", "application/json"),
        ("Date", "Sun, 06 Nov 1994 08:49:37 GMT"),
        ("Server", "mine/1.0"),
        ("X-A", "1"),
        ("X-A", "2"),
    ];
    let mut v = Vec::new();
    for (n, val) in base {
        v.push((n.to_string(), val.to_string()));
    }
    // letter-case variants for each distinct name
    for (n, val) in [
        ("connection", "keep-alive"),
        ("TRAILER", "X-T"),
        ("transfer-encoding", "gzip"),
        ("UPGRADE", "websocket"),
        ("content-length", "3"),
        ("CONTENT-TYPE", "image/png"),
        ("content-type", "text/css"),
        ("date", "Sun, 06 Nov 1994 08:49:37 GMT"),
        ("SERVER", "other"),
        ("x-a", "3"),
        ("X-B", "b"),
    ] {
        v.push((n.to_string(), val.to_string()));
    }
    v
}

#[derive(Clone, Copy, Debug, PartialEq, Eq)]
enum Via {
    Ctor,
    Add,
    With,
    Mixed,
    /// through the channel that `Response::new` takes as its last argument
    Channel,
}
const VIAS: [Via; 5] = [Via::Ctor, Via::Add, Via::With, Via::Mixed, Via::Channel];

#[derive(Clone, Debug)]
struct Config {
    list: Vec<usize>,
    via: Via,
    /// status code of the response (the header policy does not depend on it)
    status: u16,
    /// the status is set with with_status_code AFTER the headers were supplied
    status_last: bool,
}

fn max_len(tier: Tier) -> usize {
    let _ = tier;
    4
}

fn n_lists(tier: Tier) -> u64 {
    let a = atoms().len() as u64;
    (0..=max_len(tier) as u32).map(|k| a.pow(k)).sum()
}

fn decode(idx: u64, tier: Tier) -> Config {
    let a = atoms().len() as u64;
    let via = VIAS[(idx % 5) as usize];
    let mut i = idx / 5;
    let mut k = 0u32;
    loop {
        let n = a.pow(k);
        if i < n {
            break;
        }
        i -= n;
        k += 1;
        assert!(k as usize <= max_len(tier));
    }
    let mut list = Vec::new();
    for _ in 0..k {
        list.push((i % a) as usize);
        i /= a;
    }
    list.reverse();
    Config { list, via, status: 200, status_last: false }
}

fn is_protected(n: &str) -> bool {
    ["connection", "trailer", "transfer-encoding", "upgrade"]
        .iter()
        .any(|p| n.eq_ignore_ascii_case(p))
}

/// The header policy, transcribed from the statement: what the application-supplied
/// part of the header block must be.
fn reference(supplied: &[(String, String)]) -> Vec<(String, String)> {
    let mut out: Vec<(String, String)> = Vec::new();
    for (n, v) in supplied {
        if is_protected(n) || n.eq_ignore_ascii_case("content-length") {
            continue;
        }
        if n.eq_ignore_ascii_case("content-type") {
            if let Some(e) = out.iter_mut().find(|(m, _)| m.eq_ignore_ascii_case("content-type")) {
                e.1 = v.clone();
                continue;
            }
        }
        out.push((n.clone(), v.clone()));
    }
    out
}

fn judge(cfg: &Config) -> Result<String, (String, String)> {
    let at = atoms();
    let supplied: Vec<(String, String)> = cfg.list.iter().map(|&i| at[i].clone()).collect();
    let hdr = |p: &(String, String)| Header::from_bytes(p.0.as_bytes(), p.1.as_bytes()).unwrap();
    let data = b"abcde".to_vec();
    let st0 = StatusCode(if cfg.status_last { 200 } else { cfg.status });
    let mk = |hs: Vec<Header>| Response::new(st0.clone(), hs, Cursor::new(data.clone()), Some(5), None);
    let resp = match cfg.via {
        Via::Ctor => mk(supplied.iter().map(hdr).collect()),
        Via::Add => {
            let mut r = mk(vec![]);
            for p in &supplied {
                r.add_header(hdr(p));
            }
            r
        }
        Via::With => {
            let mut r = mk(vec![]);
            for p in &supplied {
                r = r.with_header(hdr(p));
            }
            r
        }
        Via::Channel => {
            let (tx, rx) = std::sync::mpsc::channel();
            for p in &supplied {
                let _ = tx.send(hdr(p));
            }
            drop(tx);
            Response::new(st0.clone(), vec![], Cursor::new(data.clone()), Some(5), Some(rx))
        }
        Via::Mixed => {
            let k = (supplied.len() + 1) / 2;
            let mut r = mk(supplied[..k.min(supplied.len())].iter().map(hdr).collect());
            for (i, p) in supplied.iter().enumerate().skip(k) {
                if i % 2 == 0 {
                    r.add_header(hdr(p));
                } else {
                    r = r.with_header(hdr(p));
                }
            }
            r
        }
    };
    let resp = if cfg.status_last { resp.with_status_code(StatusCode(cfg.status)) } else { resp };
    // a supplied Content-Length only sets the declared length
    let want_len = supplied
        .iter()
        .filter(|(n, _)| n.eq_ignore_ascii_case("content-length"))
        .filter_map(|(_, v)| v.parse::<usize>().ok())
        .last()
        .unwrap_or(5);
    if resp.data_length() != Some(want_len) {
        return Err((
            "declared-length".into(),
            format!("data_length() = {:?}, expected {}", resp.data_length(), want_len),
        ));
    }
    // keep the body consistent with the declared length so that the message is valid
    let resp = resp.with_data(Cursor::new(data[..want_len.min(5)].to_vec()), Some(want_len.min(5)));
    let t0 = SystemTime::now();
    let mut out = Vec::new();
    resp.raw_print(&mut out, HTTPVersion(1, 1), &[], false, None)
        .map_err(|e| ("io-error".to_string(), e.to_string()))?;
    let t1 = SystemTime::now();
    let m = crate::httpparse::parse_one(&out, 0, false)
        .map_err(|e| ("malformed".to_string(), e.what))?;
    if m.status != cfg.status {
        return Err(("status".into(), format!("status {} printed for {}", m.status, cfg.status)));
    }
    // split the header block: automatic headers vs. application headers
    let mut app: Vec<(String, String)> = Vec::new();
    let mut dates = Vec::new();
    let mut servers = Vec::new();
    for (n, v) in &m.headers {
        if n.eq_ignore_ascii_case("date") {
            dates.push(v.clone());
        } else if n.eq_ignore_ascii_case("server") {
            servers.push(v.clone());
        } else if n.eq_ignore_ascii_case("content-length") || n.eq_ignore_ascii_case("transfer-encoding") {
            // framing headers generated by the library (C05)
        } else {
            app.push((n.clone(), v.clone()));
        }
    }
    for (n, _) in &app {
        if is_protected(n) {
            return Err(("protected".into(), format!("protected header {} was sent", n)));
        }
    }
    let want = reference(&supplied);
    let want_app: Vec<(String, String)> = want
        .iter()
        .filter(|(n, _)| !n.eq_ignore_ascii_case("date") && !n.eq_ignore_ascii_case("server"))
        .cloned()
        .collect();
    let norm = |v: &[(String, String)]| -> Vec<(String, String)> {
        v.iter().map(|(n, x)| (n.to_ascii_lowercase(), x.clone())).collect()
    };
    if norm(&app) != norm(&want_app) {
        let key = if app.iter().filter(|(n, _)| n.eq_ignore_ascii_case("content-type")).count() > 1 {
            "content-type-dup"
        } else {
            "app-headers"
        };
        return Err((key.into(), format!("application headers sent {:?}, expected {:?}", app, want_app)));
    }
    let sup_dates: Vec<&String> = supplied.iter().filter(|(n, _)| n.eq_ignore_ascii_case("date")).map(|(_, v)| v).collect();
    let sup_servers: Vec<&String> = supplied.iter().filter(|(n, _)| n.eq_ignore_ascii_case("server")).map(|(_, v)| v).collect();
    match sup_dates.len() {
        0 => {
            if dates.len() != 1 {
                return Err(("date".into(), format!("{} Date headers", dates.len())));
            }
            let d = httpdate::parse_http_date(&dates[0])
                .map_err(|_| ("date".to_string(), format!("Date `{}` is not an HTTP-date", dates[0])))?;
            // IMF-fixdate exactly: 29 characters, ends with GMT
            if dates[0].len() != 29 || !dates[0].ends_with(" GMT") {
                return Err(("date".into(), format!("Date `{}` is not an IMF-fixdate", dates[0])));
            }
            let lo = t0 - std::time::Duration::from_secs(2);
            let hi = t1 + std::time::Duration::from_secs(2);
            if d < lo || d > hi {
                return Err(("date".into(), format!("Date `{}` is not the current time", dates[0])));
            }
        }
        1 => {
            if dates != vec![sup_dates[0].clone()] {
                return Err(("date".into(), format!("supplied Date not sent once: {:?}", dates)));
            }
        }
        _ => (), // several supplied by the application: not pinned down
    }
    match sup_servers.len() {
        0 => {
            if servers.len() != 1 {
                return Err(("server".into(), format!("{} Server headers", servers.len())));
            }
        }
        1 => {
            if servers != vec![sup_servers[0].clone()] {
                return Err(("server".into(), format!("supplied Server not sent once: {:?}", servers)));
            }
        }
        _ => (),
    }
    Ok(format!(
        "{}/{}/{}",
        app.len(),
        supplied.iter().filter(|(n, _)| is_protected(n)).count(),
        supplied.iter().filter(|(n, _)| n.eq_ignore_ascii_case("content-type")).count()
    ))
}

/// constructors: declared length = byte length
fn constructors() -> Result<u64, (String, String)> {
    let mut n = 0;
    for s in ["", "abc", "h\u{e9}llo", "\u{1F600}\u{1F600}", &"x".repeat(70000)] {
        let r = Response::from_string(s.to_string());
        if r.data_length() != Some(s.len()) {
            return Err(("ctor-length".into(), format!("from_string({:?}...) declares {:?}", &s[..s.len().min(8)], r.data_length())));
        }
        let ct: Vec<_> = r.headers().iter().filter(|h| h.field.equiv("Content-Type")).collect();
        if ct.len() != 1 {
            return Err(("ctor-length".into(), "from_string must carry one Content-Type".into()));
        }
        let r = Response::from_data(s.as_bytes().to_vec());
        if r.data_length() != Some(s.len()) {
            return Err(("ctor-length".into(), "from_data length".into()));
        }
        // with_data replaces body and length
        let r2 = r.with_data(Cursor::new(b"zz".to_vec()), Some(2));
        if r2.data_length() != Some(2) {
            return Err(("ctor-length".into(), "with_data length".into()));
        }
        let mut out = Vec::new();
        r2.raw_print(&mut out, HTTPVersion(1, 1), &[], false, None).unwrap();
        let m = crate::httpparse::parse_one(&out, 0, false).map_err(|e| ("ctor-length".to_string(), e.what))?;
        if m.body != b"zz" {
            return Err(("ctor-length".into(), "with_data body".into()));
        }
        n += 3;
    }
    let r = Response::empty(204);
    if r.data_length() != Some(0) {
        return Err(("ctor-length".into(), "empty length".into()));
    }
    n += 1;
    let dir = std::env::temp_dir().join(format!("verif-c19-{}", std::process::id()));
    let _ = std::fs::create_dir_all(&dir);
    for size in [0usize, 5, 70000] {
        let p = dir.join(format!("f{}", size));
        std::fs::write(&p, vec![b'q'; size]).unwrap();
        let r = Response::from_file(std::fs::File::open(&p).unwrap());
        if r.data_length() != Some(size) {
            return Err(("ctor-length".into(), format!("from_file({} bytes) declares {:?}", size, r.data_length())));
        }
        let mut out = Vec::new();
        r.raw_print(&mut out, HTTPVersion(1, 0), &[], false, None).unwrap();
        let m = crate::httpparse::parse_one(&out, 0, false).map_err(|e| ("ctor-length".to_string(), e.what))?;
        if m.body.len() != size {
            return Err(("ctor-length".into(), "from_file body".into()));
        }
        n += 1;
    }
    let _ = std::fs::remove_dir_all(&dir);
    // magnitudes: 1000 application headers (through the constructor list, add_header, with_header)
    // arrive once each and in the order given; a 1 MiB + 1 string declares its length
    for via in 0..3 {
        let hs: Vec<Header> = (0..1000).map(|i| Header::from_bytes(format!("X-H{}", i).as_bytes(), format!("v{}", i).as_bytes()).unwrap()).collect();
        let mut r = match via {
            0 => Response::new(StatusCode(200), hs.clone(), Cursor::new(b"ok".to_vec()), Some(2), None),
            _ => Response::new(StatusCode(200), vec![], Cursor::new(b"ok".to_vec()), Some(2), None),
        };
        for h in &hs {
            match via {
                1 => r.add_header(h.clone()),
                2 => r = r.with_header(h.clone()),
                _ => (),
            }
        }
        let mut out = Vec::new();
        r.raw_print(&mut out, HTTPVersion(1, 1), &[], false, None).unwrap();
        let m = crate::httpparse::parse_one(&out, 0, false).map_err(|e| ("many-headers".to_string(), e.what))?;
        let got: Vec<(String, String)> = m.headers.iter().filter(|(n, _)| n.starts_with("X-H")).cloned().collect();
        let want: Vec<(String, String)> = (0..1000).map(|i| (format!("X-H{}", i), format!("v{}", i))).collect();
        if got != want {
            return Err(("many-headers".into(), format!("1000 application headers supplied (way {}), {} arrived; first difference at {:?}", via, got.len(), got.iter().zip(want.iter()).position(|(a, b)| a != b))));
        }
        n += 1;
    }
    let big = "y".repeat((1 << 20) + 1);
    let r = Response::from_string(big.clone());
    if r.data_length() != Some(big.len()) {
        return Err(("ctor-length".into(), "from_string of 1 MiB + 1 declares a different length".into()));
    }
    n += 1;
    Ok(n)
}

/// IMF-fixdate of a Unix time, computed here from first principles (days-to-civil), so that
/// the Date header is compared with something that shares no code with the library.
/// Headers through the channel of `Response::new`, produced while the constructor runs: `k`
/// of them are in the channel beforehand, the others are sent by another thread 30 ms (real
/// time) after the constructor was called, one by one or with pauses, and the sender is
/// dropped only then. The constructor's documented behaviour is to take every header that
/// the channel yields, so the printed response carries them all, in order, whatever the timing.
fn channel_timing() -> Result<u64, (String, String)> {
    let names = [("X-A", "1"), ("ETag", "\"v7\""), ("X-B", "2"), ("Content-Type", "text/x"), ("X-A", "3")];
    let hdr = |p: &(&str, &str)| Header::from_bytes(p.0.as_bytes(), p.1.as_bytes()).unwrap();
    let mut n = 0;
    for len in 1..=names.len() {
        for k in 0..=len {
            for pause_ms in [0u64, 10] {
                if k == len && pause_ms > 0 {
                    continue;
                }
                let (tx, rx) = std::sync::mpsc::channel();
                for p in &names[..k] {
                    let _ = tx.send(hdr(p));
                }
                let late: Vec<Header> = names[k..len].iter().map(hdr).collect();
                let producer = std::thread::spawn(move || {
                    if !late.is_empty() {
                        std::thread::sleep(std::time::Duration::from_millis(30));
                    }
                    for h in late {
                        let _ = tx.send(h);
                        if pause_ms > 0 {
                            std::thread::sleep(std::time::Duration::from_millis(pause_ms));
                        }
                    }
                    drop(tx);
                });
                let resp = Response::new(StatusCode(200), vec![], Cursor::new(b"abcde".to_vec()), Some(5), Some(rx));
                let _ = producer.join();
                let mut out = Vec::new();
                resp.raw_print(&mut out, HTTPVersion(1, 1), &[], false, None).map_err(|e| ("io-error".to_string(), e.to_string()))?;
                let m = crate::httpparse::parse_one(&out, 0, false).map_err(|e| ("malformed".to_string(), format!("{} at {}", e.what, e.at)))?;
                let supplied: Vec<(String, String)> = names[..len].iter().map(|(a, b)| (a.to_string(), b.to_string())).collect();
                let want = reference(&supplied);
                let got: Vec<(String, String)> = m
                    .headers
                    .iter()
                    .filter(|(h, _)| want.iter().any(|(w, _)| w.eq_ignore_ascii_case(h)) || h.eq_ignore_ascii_case("etag") || h.to_ascii_lowercase().starts_with("x-"))
                    .cloned()
                    .collect();
                if got != want {
                    return Err((
                        "channel-late-producer".into(),
                        format!(
                            "{} header(s) through the channel of Response::new, {} queued beforehand, the others sent by another thread while the constructor runs (sender dropped afterwards): printed {:?}, supplied {:?}",
                            len, k, got, want
                        ),
                    ));
                }
                n += 1;
            }
        }
    }
    Ok(n)
}

pub fn imf_fixdate(secs: u64) -> String {
    let days = (secs / 86400) as i64;
    let rem = secs % 86400;
    let (h, mi, s) = (rem / 3600, rem % 3600 / 60, rem % 60);
    // civil from days (proleptic Gregorian), 1970-01-01 = day 0, a Thursday
    let z = days + 719468;
    let era = z.div_euclid(146097);
    let doe = z.rem_euclid(146097);
    let yoe = (doe - doe / 1460 + doe / 36524 - doe / 146096) / 365;
    let y = yoe + era * 400;
    let doy = doe - (365 * yoe + yoe / 4 - yoe / 100);
    let mp = (5 * doy + 2) / 153;
    let d = doy - (153 * mp + 2) / 5 + 1;
    let m = if mp < 10 { mp + 3 } else { mp - 9 };
    let y = if m <= 2 { y + 1 } else { y };
    let wd = ["Thu", "Fri", "Sat", "Sun", "Mon", "Tue", "Wed"][(days.rem_euclid(7)) as usize];
    let mn = ["Jan", "Feb", "Mar", "Apr", "May", "Jun", "Jul", "Aug", "Sep", "Oct", "Nov", "Dec"][(m - 1) as usize];
    format!("{}, {:02} {} {:04} {:02}:{:02}:{:02} GMT", wd, d, mn, y, h, mi, s)
}

fn unix_now() -> u64 {
    SystemTime::now().duration_since(SystemTime::UNIX_EPOCH).map(|d| d.as_secs()).unwrap_or(0)
}

fn printed_date() -> Result<String, (String, String)> {
    let r = Response::from_string("x");
    let mut out = Vec::new();
    r.raw_print(&mut out, HTTPVersion(1, 1), &[], false, None).map_err(|e| ("io-error".to_string(), e.to_string()))?;
    let m = crate::httpparse::parse_one(&out, 0, false).map_err(|e| ("malformed".to_string(), e.what))?;
    let ds: Vec<&(String, String)> = m.headers.iter().filter(|(n, _)| n.eq_ignore_ascii_case("date")).collect();
    if ds.len() != 1 {
        return Err(("date".into(), format!("{} Date headers", ds.len())));
    }
    Ok(ds[0].1.clone())
}

/// The Date header over the calendar and over time: the wall clock the library reads (hook
/// H6) is moved to chosen instants and the header is compared with `imf_fixdate`.
///   * one instant on every day from 2024-01-01 to 2029-01-01 (every day of month, month,
///     weekday, two leap days), and around 2000-02-29, 2038-01-19 03:14:08, 2100-02-28/03-01,
///     9999-12-31;
///   * sequences on ONE thread that step over second, minute, hour, day, month and year
///     boundaries by 1 s, 3 s, 59 s, 61 s, 1 h, 1 day: every header must show its own instant.
fn dates() -> Result<u64, (String, String)> {
    use tiny_http::verif_rt::time::set_wall_offset_secs;
    let mut n = 0u64;
    let check_at = |target: u64, what: &str| -> Result<(), (String, String)> {
        let now = unix_now();
        set_wall_offset_secs(target as i64 - now as i64);
        let got = printed_date();
        set_wall_offset_secs(0);
        let got = got?;
        // the real clock may have ticked once between setting the offset and printing
        let ok = (0..=2).any(|d| got == imf_fixdate(target + d));
        if !ok {
            return Err(("date".into(), format!("{}: with the clock at `{}` the Date header is `{}`", what, imf_fixdate(target), got)));
        }
        Ok(())
    };
    let day0 = 19723u64; // 2024-01-01
    for d in 0..=1827u64 {
        check_at((day0 + d) * 86400 + (d * 7919) % 86400, "calendar sweep")?;
        n += 1;
    }
    for t in [951782400u64 + 43200, 951868799, 2147483647, 2147483648, 2147483649, 4107456000 - 1, 4107456000, 4107542400, 253402300799 - 5] {
        check_at(t, "special instants")?;
        n += 1;
    }
    // sequences on this thread across boundaries
    let starts = [
        1798761599u64 - 1,  // 2026-12-31 23:59:58
        1772323199 - 1,     // 2026-02-28 23:59:58
        1835395199 - 1,     // 2028-02-28 23:59:58 (leap year)
        1790553599 - 1,     // 2026-09-27 23:59:58 (day boundary)
        1790510399 - 1,     // an hour boundary
        1790510459 - 1,     // a minute boundary
    ];
    for s0 in starts {
        let mut t = s0;
        for step in [0u64, 1, 1, 1, 3, 55, 59, 60, 61, 3540, 3600, 86399, 86400, 1, 59, 2_678_400, 31_536_000] {
            t += step;
            check_at(t, &format!("sequence from {} stepping {}", imf_fixdate(s0), step))?;
            n += 1;
        }
    }
    Ok(n)
}

fn run_cfg(cfg: &Config, acc: &mut Acc) {
    acc.evals += 1;
    let at = atoms();
    let desc = || {
        json!({"headers": cfg.list.iter().map(|&i| format!("{}: {}", at[i].0, at[i].1)).collect::<Vec<_>>(),
               "via": format!("{:?}", cfg.via), "list": cfg.list, "status": cfg.status, "status_last": cfg.status_last})
    };
    match judge(cfg) {
        Ok(class) => {
            if !cfg.list.is_empty() {
                acc.nontrivial += 1;
            }
            acc.outcomes.insert(hash_str(&class));
            if cfg.list.len() >= 2 {
                acc.sample(desc());
            }
        }
        Err((key, d)) => acc.violation(&key, format!("{} for {}", d, desc()), desc()),
    }
}

impl Check for C19 {
    fn id(&self) -> &'static str {
        "C19"
    }
    fn level(&self) -> &'static str {
        "exploration"
    }
    fn n_items(&self, tier: Tier) -> u64 {
        n_lists(tier) * 5 + 1 + 9
    }
    fn chunk(&self, _tier: Tier) -> u64 {
        2_000
    }
    fn run_item(&self, idx: u64, tier: Tier, acc: &mut Acc) {
        if idx > n_lists(tier) * 5 {
            // every status code 100..=999 (one item per hundred): the policy is the same for all
            let hundred = idx - n_lists(tier) * 5 - 1;
            let at = atoms();
            let find = |name: &str| at.iter().position(|(n, _)| n == name).unwrap_or(0);
            let (conn, trailer, te, up, xa, ct) = (find("Connection"), find("Trailer"), find("Transfer-Encoding"), find("Upgrade"), find("X-A"), find("Content-Type"));
            let lists: Vec<Vec<usize>> = vec![vec![conn], vec![trailer], vec![te], vec![up], vec![xa, up, conn, xa], vec![ct, trailer, te, ct]];
            for status in (100 + hundred * 100)..(200 + hundred * 100) {
                for list in &lists {
                    for via in VIAS {
                        for status_last in [false, true] {
                            run_cfg(&Config { list: list.clone(), via, status: status as u16, status_last }, acc);
                        }
                    }
                }
            }
            return;
        }
        if idx == n_lists(tier) * 5 {
            match constructors() {
                Ok(n) => {
                    acc.evals += n;
                    acc.nontrivial += n;
                    acc.count("constructor_cases", n);
                }
                Err((k, d)) => acc.violation(&k, d, json!({"constructors": true})),
            }
            match channel_timing() {
                Ok(n) => {
                    acc.evals += n;
                    acc.nontrivial += n;
                    acc.count("channel_producer_timings", n);
                }
                Err((k, d)) => acc.violation(&k, d, json!({"constructors": true})),
            }
            match dates() {
                Ok(n) => {
                    acc.evals += n;
                    acc.nontrivial += n;
                    acc.count("date_instants", n);
                }
                Err((k, d)) => acc.violation(&format!("{}:calendar", k), d, json!({"constructors": true})),
            }
            return;
        }
        let cfg = decode(idx, tier);
        if matches!(cfg.via, Via::Channel) && cfg.list.len() >= max_len(tier) && tier == Tier::Quick {
            // the channel entry point: lists up to one less than the maximal length in the quick tier
            return;
        }
        run_cfg(&cfg, acc);
    }
    fn rule(&self, tier: Tier) -> String {
        format!(
            "the Date header with the wall clock (hook H6) moved to one instant on every day of 2024-2028, to 2000-02-29 / 2038-01-19 / 2100-03-01 / 9999-12-31, and stepped on one thread over second, minute, hour, day, month and year boundaries (compared with an IMF-fixdate computed from first principles); every status code 100..999 x 6 lists containing each protected name (alone and among others) x the five entry points x status given to the constructor or set afterwards with with_status_code; entry points: constructor list, add_header, with_header, a mix, and the channel argument of Response::new (quick: lists shorter than the maximal length; also with 1..5 headers of which 0..all are queued beforehand and the others are sent by a second thread 30 ms after the constructor was entered, back to back or 10 ms apart, the sender dropped last: all of them are printed); 1000 application headers through each entry point (order and multiplicity), from_string of 1 MiB + 1; all header lists of length 0..{} over {} atoms (Connection, Trailer, Transfer-Encoding, Upgrade, Content-Length valid/invalid, Content-Type x4, Date, Server, X-A x3, X-B; canonical/lower/upper case names) x 4 ways of supplying them (constructor, add_header, with_header, mixed) = {} responses, printed and compared with the reference header policy; plus the constructor cases (from_string ASCII/2-byte/4-byte UTF-8/70000 bytes, from_data, from_file 0/5/70000 bytes, empty, with_data); non-trivial = non-empty list",
            max_len(tier), atoms().len(), n_lists(tier) * 5
        )
    }
    fn assumptions(&self) -> Vec<String> {
        vec!["several Date or several Server headers supplied by the application are not judged (the statement only covers 'unless the application supplied its own')".into()]
    }
    fn replay(&self, replay: &Value, acc: &mut Acc) {
        if replay["constructors"].as_bool() == Some(true) {
            if let Err((k, d)) = dates() {
                acc.violation(&format!("{}:calendar", k), d, replay.clone());
            }
            if let Err((k, d)) = constructors() {
                acc.violation(&k, d, replay.clone());
            }
            return;
        }
        let list: Vec<usize> = replay["list"].as_array().map(|a| a.iter().map(|x| x.as_u64().unwrap_or(0) as usize).collect()).unwrap_or_default();
        let via = match replay["via"].as_str() {
            Some("Add") => Via::Add,
            Some("With") => Via::With,
            Some("Mixed") => Via::Mixed,
            Some("Channel") => Via::Channel,
            _ => Via::Ctor,
        };
        let status = replay["status"].as_u64().unwrap_or(200) as u16;
        let status_last = replay["status_last"].as_bool().unwrap_or(false);
        run_cfg(&Config { list, via, status, status_last }, acc);
    }
}
