//! C01 — pipelined responses leave in request order and are never interleaved.
//! Seam (a): the real SequentialWriterBuilder over a 1 KiB BufWriter, n writers used by n
//! threads.  Seam (b): the real server, one connection, n pipelined requests answered by
//! handler threads in every forced order and under explored interleavings.

use crate::httpparse::parse_stream;
use crate::infra::*;
use crate::l2::*;
use crate::runner::*;
use serde_json::{json, Value};
use std::io::{BufWriter, Write};
use std::sync::{Arc, Mutex, OnceLock};
use std::time::Duration;
use tiny_http::verif_api::SequentialWriterBuilder;
use tiny_http::verif_rt::core::{End, RunResult};
use tiny_http::verif_rt::explore::Mode;
use tiny_http::verif_rt::{ctl, thread};

pub struct C01;

// ------------------------------------------------------------------------- actions

#[derive(Clone, Debug, PartialEq)]
pub enum Action {
    /// respond() with a body of the given length, length declared
    Respond(usize),
    /// respond() with a body of unknown length (chunked on HTTP/1.1)
    RespondChunked(usize),
    /// into_writer(), `writes` parts of one complete raw response with `body` bytes
    Raw { writes: usize, body: usize, flush: bool },
    /// a complete raw response written with another method of `Write` than write_all:
    /// style 1 = write_vectored (two slices per call), 2 = plain write() of <= 64 bytes
    RawStyle { style: usize, body: usize },
    /// the request is dropped: automatic 500
    Drop,
    /// `upgrade()` answered 101, then `n` marker bytes written to the stream, flushed, stream
    /// dropped (only as the last request of a connection: the stream is the application's then)
    Upgrade(usize),
}

impl Action {
    fn label(&self) -> String {
        match self {
            Action::Respond(n) => format!("respond{}", n),
            Action::RespondChunked(n) => format!("chunked{}", n),
            Action::Raw { writes, body, flush } => format!("raw{}x{}{}", writes, body, if *flush { "f" } else { "" }),
            Action::RawStyle { style, body } => format!("raw{}{}", if *style == 1 { "v" } else { "w" }, body),
            Action::Drop => "drop".into(),
            Action::Upgrade(n) => format!("upgrade{}", n),
        }
    }
    fn from_label(s: &str) -> Action {
        if s == "drop" {
            return Action::Drop;
        }
        if let Some(n) = s.strip_prefix("upgrade") {
            return Action::Upgrade(n.parse().unwrap_or(10));
        }
        if let Some(n) = s.strip_prefix("respond") {
            return Action::Respond(n.parse().unwrap_or(10));
        }
        if let Some(n) = s.strip_prefix("chunked") {
            return Action::RespondChunked(n.parse().unwrap_or(10));
        }
        if let Some(n) = s.strip_prefix("rawv") {
            return Action::RawStyle { style: 1, body: n.parse().unwrap_or(10) };
        }
        if let Some(n) = s.strip_prefix("raww") {
            return Action::RawStyle { style: 2, body: n.parse().unwrap_or(10) };
        }
        let r = s.trim_start_matches("raw");
        let flush = r.ends_with('f');
        let r = r.trim_end_matches('f');
        let mut it = r.split('x');
        Action::Raw {
            writes: it.next().and_then(|x| x.parse().ok()).unwrap_or(1),
            body: it.next().and_then(|x| x.parse().ok()).unwrap_or(10),
            flush,
        }
    }
    fn to_plan(&self, id: usize) -> ReqPlan {
        let finish = match self {
            Action::Respond(n) => Finish::Respond(RespSpec::ok(*n)),
            Action::RespondChunked(n) => Finish::Respond(RespSpec { status: 200, body_len: *n, declared: false, threshold: None, headers: 0 }),
            Action::Raw { writes, body, flush } => Finish::Writer {
                parts: if *writes == 0 { vec![] } else { raw_response_parts(id, *body, *writes) },
                flush: *flush,
            },
            Action::RawStyle { style, body } => {
                // leading empty parts select the Write method (scenario::handle_request)
                let mut parts: Vec<Vec<u8>> = vec![Vec::new(); *style];
                parts.extend(raw_response_parts(id, *body, 1));
                Finish::Writer { parts, flush: false }
            }
            Action::Drop => Finish::Drop,
            // srv_body runs upgrades itself (Finish::Upgrade reads until the client half-closes)
            Action::Upgrade(_) => Finish::Drop,
        };
        ReqPlan { read: ReadPlan::None, finish }
    }
    /// (status, X-Id) the client must see for this action, None = nothing is emitted
    fn expected(&self, id: usize) -> Option<(u16, Option<usize>)> {
        match self {
            Action::Respond(_) | Action::RespondChunked(_) => Some((200, Some(id))),
            Action::Raw { writes: 0, .. } => None,
            Action::Raw { .. } | Action::RawStyle { .. } => Some((200, Some(id))),
            Action::Drop => Some((500, None)),
            Action::Upgrade(_) => Some((101, Some(id))),
        }
    }
    fn upgrade_marker(id: usize, n: usize) -> Vec<u8> {
        let mut m = format!("UPG{}:", id).into_bytes();
        m.extend_from_slice(&body_for(id, n));
        m
    }
}

pub fn actions(tier: Tier) -> Vec<Action> {
    let mut v = vec![
        Action::Respond(10),
        Action::Respond(1500),
        Action::RespondChunked(1500),
        Action::Raw { writes: 0, body: 0, flush: false },
        Action::Raw { writes: 2, body: 1500, flush: true },
        Action::Drop,
        Action::RawStyle { style: 1, body: 10 },
        Action::RawStyle { style: 1, body: 1500 },
    ];
    if tier == Tier::Thorough {
        v.push(Action::RespondChunked(10));
        v.push(Action::Raw { writes: 1, body: 10, flush: false });
        v.push(Action::Raw { writes: 2, body: 10, flush: false });
        v.push(Action::Raw { writes: 2, body: 1500, flush: false });
        v.push(Action::Raw { writes: 1, body: 1500, flush: true });
        v.push(Action::RawStyle { style: 2, body: 10 });
    }
    v
}

// ------------------------------------------------------------------------- server seam

#[derive(Clone, Debug, PartialEq)]
pub struct SrvScenario {
    pub actions: Vec<Action>,
    /// order in which the handler threads are started; None = all at once (racing)
    pub order: Option<Vec<usize>>,
    /// the last request is sent only after the handlers of the earlier ones have started
    pub late_last: bool,
}

impl SrvScenario {
    fn to_json(&self) -> Value {
        json!({"seam": "Server", "actions": self.actions.iter().map(|a| a.label()).collect::<Vec<_>>(), "order": self.order, "late_last": self.late_last})
    }
    fn from_json(v: &Value) -> SrvScenario {
        SrvScenario {
            actions: v["actions"].as_array().map(|a| a.iter().map(|x| Action::from_label(x.as_str().unwrap_or("drop"))).collect()).unwrap_or_default(),
            order: v["order"].as_array().map(|a| a.iter().map(|x| x.as_u64().unwrap_or(0) as usize).collect()),
            late_last: v["late_last"].as_bool().unwrap_or(false),
        }
    }
}

#[derive(Clone, Debug, Default)]
pub struct SrvObs {
    pub received: Vec<u8>,
    pub finish: Vec<String>,
    pub observed: bool,
}

fn run_handler(rq: tiny_http::Request, i: usize, act: &Action, plan: &ReqPlan, sh: &SharedObs) {
    if let Action::Upgrade(n) = act {
        let resp = tiny_http::Response::empty(101).with_header(tiny_http::Header::from_bytes(&b"X-Id"[..], i.to_string().as_bytes()).unwrap());
        let mut s = rq.upgrade("verif", resp);
        let _ = s.write_all(&Action::upgrade_marker(i, *n));
        let _ = s.flush();
        drop(s);
        return;
    }
    handle_request(rq, i, plan, sh)
}

pub fn srv_body(sc: SrvScenario, obs: Arc<Mutex<SrvObs>>) {
    ctl::window(false);
    let n = sc.actions.len();
    let srv = start_server();
    ctl::settle();
    let c = connect(&srv.addr, 0, &ConnSpec::default()).expect("connect");
    let first = if sc.late_last { n - 1 } else { n };
    let mut bytes = Vec::new();
    for i in 0..first {
        bytes.extend_from_slice(format!("GET /r{} HTTP/1.1\r\nHost: t\r\n\r\n", i).as_bytes());
    }
    let _ = c.send(&bytes);
    let mut rqs = Vec::new();
    for _ in 0..first {
        rqs.push(Some(srv.server.recv().expect("recv")));
    }
    ctl::settle();
    let shared: SharedObs = Arc::new(Mutex::new(Obs::default()));
    ctl::window(true);
    let mut hs = Vec::new();
    let order: Vec<usize> = match &sc.order {
        Some(o) => o.iter().copied().filter(|&i| i < first).collect(),
        None => (0..first).collect(),
    };
    for &i in &order {
        let rq = rqs[i].take().unwrap();
        let plan = sc.actions[i].to_plan(i);
        let sh = shared.clone();
        let act = sc.actions[i].clone();
        hs.push(thread::spawn_named(Some(format!("handler{}", i)), move || run_handler(rq, i, &act, &plan, &sh)));
        if sc.order.is_some() {
            // forced order: this handler runs until it finishes or has to wait for its turn
            ctl::settle();
        }
    }
    if sc.late_last {
        let i = n - 1;
        let _ = c.send(format!("GET /r{} HTTP/1.1\r\nHost: t\r\n\r\n", i).as_bytes());
        let rq = srv.server.recv().expect("recv late");
        let plan = sc.actions[i].to_plan(i);
        let sh = shared.clone();
        let act = sc.actions[i].clone();
        hs.push(thread::spawn_named(Some(format!("handler{}", i)), move || run_handler(rq, i, &act, &plan, &sh)));
    }
    for h in hs {
        let _ = h.join();
    }
    ctl::settle();
    ctl::window(false);
    {
        let d = c.drain();
        let mut o = obs.lock().unwrap();
        o.received = d.segments.concat();
        o.finish = shared.lock().unwrap().reqs.iter().map(|r| r.finish.clone()).collect();
        o.observed = true;
    }
    c.close_write();
    ctl::settle();
    let d = c.drain();
    obs.lock().unwrap().received.extend(d.segments.concat());
    drop(c);
    drop(srv);
    ctl::sleep(Duration::from_millis(11_000));
    ctl::settle();
}

fn judge_stream(actions: &[Action], received: &[u8]) -> Vec<(String, String)> {
    let mut f = Vec::new();
    let want: Vec<(u16, Option<usize>)> = actions.iter().enumerate().filter_map(|(i, a)| a.expected(i)).collect();
    let st = parse_stream(received, &vec![false; want.len()]);
    if let Some(e) = &st.error {
        f.push((
            "interleaved-or-truncated".into(),
            format!("the client stream is not a sequence of complete messages: {} at byte {} (`{}`)", e.what, e.at, esc_short(received, 200)),
        ));
        return f;
    }
    let got: Vec<(u16, Option<usize>)> = st.finals().iter().map(|m| (m.status, m.header("X-Id").and_then(|v| v.parse().ok()))).collect();
    if got != want {
        f.push((
            "out-of-order".into(),
            format!("responses arrived as (status, request id) {:?}, request order demands {:?}", got, want),
        ));
    }
    // bodies carry the request id as well: a swapped body shows
    for m in st.finals() {
        if let Some(id) = m.header("X-Id").and_then(|v| v.parse::<usize>().ok()) {
            if m.status == 200 && m.body != body_for(id, m.body.len()) {
                f.push(("interleaved-or-truncated".into(), format!("body of response {} contains foreign bytes: `{}`", id, esc_short(&m.body, 80))));
            }
            if m.status == 101 {
                if let Some(Action::Upgrade(n)) = actions.get(id) {
                    if m.after_upgrade != Action::upgrade_marker(id, *n) {
                        f.push((
                            "interleaved-or-truncated".into(),
                            format!("after the 101 of request {} the client got `{}`, the application wrote `{}` to the upgraded stream", id, esc_short(&m.after_upgrade, 80), esc_short(&Action::upgrade_marker(id, *n), 80)),
                        ));
                    }
                }
            }
        }
    }
    f
}

pub fn srv_judge(sc: &SrvScenario, o: &SrvObs, res: &RunResult) -> Vec<(String, String)> {
    let mut f = Vec::new();
    for p in &res.panics {
        f.push(("panic".to_string(), format!("{} at {}", p.message, p.location)));
    }
    if res.end == End::Diverged {
        return vec![("machinery".into(), format!("{:?}", res.divergence))];
    }
    if !o.observed {
        f.push(("hang".into(), format!("the handlers never all finish: {:?}", res.blocked)));
        return f;
    }
    f.extend(judge_stream(&sc.actions, &o.received));
    if res.end != End::Clean && f.is_empty() {
        f.push(("hang".into(), format!("{:?} {:?}", res.end, res.blocked)));
    }
    f
}

// ------------------------------------------------------------------------- component seam

#[derive(Clone)]
struct Sink(Arc<Mutex<Vec<u8>>>);

impl Write for Sink {
    fn write(&mut self, b: &[u8]) -> std::io::Result<usize> {
        self.0.lock().unwrap().extend_from_slice(b);
        Ok(b.len())
    }
    fn flush(&mut self) -> std::io::Result<()> {
        Ok(())
    }
}

#[derive(Clone, Debug, PartialEq)]
pub struct SeamScenario {
    pub actions: Vec<Action>,
}

#[derive(Clone, Debug, Default)]
pub struct SeamObs {
    pub out: Vec<u8>,
    pub done: bool,
}

pub fn seam_body(sc: SeamScenario, obs: Arc<Mutex<SeamObs>>) {
    let sink = Sink(Arc::new(Mutex::new(Vec::new())));
    let mut builder = SequentialWriterBuilder::new(BufWriter::with_capacity(1024, sink.clone()));
    let writers: Vec<_> = (0..sc.actions.len()).map(|_| builder.next().unwrap()).collect();
    let mut hs = Vec::new();
    for (i, (mut w, a)) in writers.into_iter().zip(sc.actions.iter().cloned()).enumerate() {
        hs.push(thread::spawn_named(Some(format!("writer{}", i)), move || {
            match a {
                Action::Respond(n) | Action::RespondChunked(n) => {
                    // what respond() does: head, body, flush, drop
                    let parts = raw_response_parts(i, n, 2);
                    for p in parts {
                        let _ = w.write_all(&p);
                    }
                    let _ = w.flush();
                }
                Action::Raw { writes, body, flush } => {
                    if writes > 0 {
                        for p in raw_response_parts(i, body, writes) {
                            let _ = w.write_all(&p);
                            if flush {
                                let _ = w.flush();
                            }
                        }
                    }
                }
                Action::RawStyle { style, body } => {
                    for p in raw_response_parts(i, body, 1) {
                        if style == 1 {
                            let _ = crate::scenario::write_vectored_all(&mut w, &p);
                        } else {
                            let mut off = 0;
                            while off < p.len() {
                                match w.write(&p[off..(off + 64).min(p.len())]) {
                                    Ok(n) if n > 0 => off += n,
                                    _ => break,
                                }
                            }
                        }
                    }
                }
                Action::Upgrade(n) => {
                    let _ = w.write_all(format!("HTTP/1.1 101 Switching Protocols\r\nX-Id: {}\r\nUpgrade: verif\r\nConnection: upgrade\r\n\r\n", i).as_bytes());
                    let _ = w.flush();
                    let _ = w.write_all(&Action::upgrade_marker(i, n));
                    let _ = w.flush();
                }
                Action::Drop => {
                    let _ = w.write_all(b"HTTP/1.1 500 Internal Server Error\r\nContent-Length: 0\r\n\r\n");
                    let _ = w.flush();
                }
            }
            drop(w);
        }));
    }
    for h in hs {
        let _ = h.join();
    }
    drop(builder);
    let mut o = obs.lock().unwrap();
    o.out = sink.0.lock().unwrap().clone();
    o.done = true;
}

pub fn seam_judge(sc: &SeamScenario, o: &SeamObs, res: &RunResult) -> Vec<(String, String)> {
    let mut f = Vec::new();
    for p in &res.panics {
        f.push(("panic".to_string(), format!("{} at {}", p.message, p.location)));
    }
    if res.end == End::Diverged {
        return vec![("machinery".into(), format!("{:?}", res.divergence))];
    }
    if !o.done {
        f.push(("hang".into(), format!("the writers never all finish: {:?}", res.blocked)));
        return f;
    }
    f.extend(judge_stream(&sc.actions, &o.out));
    f
}

// ------------------------------------------------------------------------- enumeration

#[derive(Clone, Debug)]
enum Item {
    Srv(SrvScenario, u32),
    Seam(SeamScenario, Option<u32>),
}

fn permutations(n: usize) -> Vec<Vec<usize>> {
    fn rec(cur: &mut Vec<usize>, used: &mut Vec<bool>, n: usize, out: &mut Vec<Vec<usize>>) {
        if cur.len() == n {
            out.push(cur.clone());
            return;
        }
        for i in 0..n {
            if !used[i] {
                used[i] = true;
                cur.push(i);
                rec(cur, used, n, out);
                cur.pop();
                used[i] = false;
            }
        }
    }
    let mut out = Vec::new();
    rec(&mut Vec::new(), &mut vec![false; n], n, &mut out);
    out
}

fn items(tier: Tier) -> &'static Vec<Item> {
    static Q: OnceLock<Vec<Item>> = OnceLock::new();
    static T: OnceLock<Vec<Item>> = OnceLock::new();
    let cell = if tier == Tier::Quick { &Q } else { &T };
    cell.get_or_init(|| {
        let thorough = tier == Tier::Thorough;
        let acts = actions(tier);
        let mut v = Vec::new();
        // n = 2: all programs; forced orders at bound 0, racing with deviations
        for a in &acts {
            for b in &acts {
                let prog = vec![a.clone(), b.clone()];
                for p in permutations(2) {
                    v.push(Item::Srv(SrvScenario { actions: prog.clone(), order: Some(p), late_last: false }, 0));
                }
                v.push(Item::Srv(SrvScenario { actions: prog.clone(), order: None, late_last: false }, 2));
                v.push(Item::Srv(SrvScenario { actions: prog.clone(), order: None, late_last: true }, 1));
                v.push(Item::Seam(SeamScenario { actions: prog.clone() }, None));
            }
        }
        // n = 3: all programs over the quick action set with all 6 forced orders
        let acts3 = actions(Tier::Quick);
        for a in &acts3 {
            for b in &acts3 {
                for c in &acts3 {
                    let prog = vec![a.clone(), b.clone(), c.clone()];
                    for p in permutations(3) {
                        v.push(Item::Srv(SrvScenario { actions: prog.clone(), order: Some(p), late_last: false }, 0));
                    }
                    v.push(Item::Srv(SrvScenario { actions: prog.clone(), order: None, late_last: false }, 1));
                    if thorough {
                        v.push(Item::Seam(SeamScenario { actions: prog.clone() }, Some(2)));
                    } else {
                        v.push(Item::Seam(SeamScenario { actions: prog.clone() }, Some(1)));
                    }
                }
            }
        }
        // an upgrade as the last request of the connection, earlier responses still pending
        for up in [Action::Upgrade(10), Action::Upgrade(1500)] {
            for a in &acts {
                let prog = vec![a.clone(), up.clone()];
                for p in permutations(2) {
                    v.push(Item::Srv(SrvScenario { actions: prog.clone(), order: Some(p), late_last: false }, 0));
                }
                v.push(Item::Srv(SrvScenario { actions: prog.clone(), order: None, late_last: false }, 2));
                v.push(Item::Srv(SrvScenario { actions: prog.clone(), order: None, late_last: true }, 1));
                v.push(Item::Seam(SeamScenario { actions: prog.clone() }, None));
            }
        }
        for a in &acts3 {
            for b in &acts3 {
                let prog = vec![a.clone(), b.clone(), Action::Upgrade(10)];
                for p in permutations(3) {
                    v.push(Item::Srv(SrvScenario { actions: prog.clone(), order: Some(p), late_last: false }, 0));
                }
                v.push(Item::Srv(SrvScenario { actions: prog.clone(), order: None, late_last: false }, 1));
            }
        }
        if thorough {
            // n = 3 at the seam with 3 deviations (chess) for the programs built from the
            // three most different writers: used at once, written in two flushed parts, unused
            let sub = [Action::Respond(10), Action::Raw { writes: 2, body: 1500, flush: true }, Action::Raw { writes: 0, body: 0, flush: false }];
            for a in &sub {
                for b in &sub {
                    for c in &sub {
                        v.push(Item::Seam(SeamScenario { actions: vec![a.clone(), b.clone(), c.clone()] }, Some(3)));
                    }
                }
            }
        }
        {
            // n = 4: all 24 forced orders over a reduced action set
            let acts4: Vec<Action> = if thorough {
                vec![Action::Respond(10), Action::Raw { writes: 0, body: 0, flush: false }, Action::Drop, Action::Raw { writes: 2, body: 1500, flush: true }]
            } else {
                vec![Action::Respond(10), Action::Raw { writes: 0, body: 0, flush: false }, Action::Drop]
            };
            for a in &acts4 {
                for b in &acts4 {
                    for c in &acts4 {
                        for d in &acts4 {
                            let prog = vec![a.clone(), b.clone(), c.clone(), d.clone()];
                            for p in permutations(4) {
                                v.push(Item::Srv(SrvScenario { actions: prog.clone(), order: Some(p), late_last: false }, 0));
                            }
                        }
                    }
                }
            }
        }
        {
            // magnitudes: long pipelines answered in forced orders (default schedule) - nothing
            // may depend on how many requests a connection holds
            let cycle = [Action::Respond(10), Action::Raw { writes: 0, body: 0, flush: false }, Action::Drop, Action::Raw { writes: 2, body: 1500, flush: true }];
            for n in if thorough { vec![16usize, 65, 130, 300, 1030] } else { vec![65usize, 130] } {
                let progs: Vec<Vec<Action>> = vec![
                    vec![Action::Respond(10); n],
                    (0..n).map(|i| cycle[i % 4].clone()).collect(),
                    (0..n).map(|i| if i == 0 { Action::Respond(10) } else { Action::Raw { writes: 0, body: 0, flush: false } }).collect(),
                ];
                let orders: Vec<Vec<usize>> = vec![
                    (0..n).rev().collect(),
                    (1..n).chain(std::iter::once(0)).collect(),
                    (0..n).filter(|i| i % 2 == 1).chain((0..n).filter(|i| i % 2 == 0)).collect(),
                ];
                for prog in &progs {
                    for o in &orders {
                        v.push(Item::Srv(SrvScenario { actions: prog.clone(), order: Some(o.clone()), late_last: false }, 0));
                    }
                }
            }
        }
        v
    })
}

fn key_for(actions: &[Action], k: &str) -> String {
    // the finding is named after the kind of writer that breaks the order
    let has_unused = actions.iter().any(|a| matches!(a, Action::Raw { writes: 0, .. }));
    if k == "panic" || k == "hang" || k == "machinery" {
        return k.to_string();
    }
    format!("{}:{}", k, if has_unused { "writer-dropped-unused" } else { "writers-all-used" })
}

impl Check for C01 {
    fn id(&self) -> &'static str {
        "C01"
    }
    fn level(&self) -> &'static str {
        "model_checking"
    }
    fn n_items(&self, tier: Tier) -> u64 {
        items(tier).len() as u64
    }
    fn chunk(&self, _tier: Tier) -> u64 {
        8
    }
    fn run_item(&self, idx: u64, tier: Tier, acc: &mut Acc) {
        let wall = Duration::from_secs(if tier == Tier::Thorough { 300 } else { 30 });
        match &items(tier)[idx as usize] {
            Item::Srv(sc, bound) => {
                let cfg = L2Cfg { mode: Mode::Strict, bound: Some(*bound), max_execs: 400_000, wall, spurious_upto: None };
                let (s2, s3) = (sc.clone(), sc.clone());
                let found = explore_scenario::<SrvObs, _, _>(&cfg, acc, &sc.to_json(), move |o| srv_body(s2.clone(), o), |o, r| {
                    srv_judge(&s3, o, r).into_iter().map(|(k, d)| (key_for(&s3.actions, &k), d)).collect()
                });
                acc.nontrivial += 1;
                if !found && sc.order.is_none() {
                    acc.sample(json!({"scenario": sc.to_json(), "mode": "strict", "bound": bound}));
                }
            }
            Item::Seam(sc, bound) => {
                let cfg = L2Cfg { mode: Mode::Chess, bound: *bound, max_execs: 3_000_000, wall, spurious_upto: None };
                let (s2, s3) = (sc.clone(), sc.clone());
                let j = json!({"seam": "SequentialWriter", "actions": sc.actions.iter().map(|a| a.label()).collect::<Vec<_>>()});
                let found = explore_scenario::<SeamObs, _, _>(&cfg, acc, &j, move |o| seam_body(s2.clone(), o), |o, r| {
                    seam_judge(&s3, o, r).into_iter().map(|(k, d)| (key_for(&s3.actions, &k), d)).collect()
                });
                acc.nontrivial += 1;
                if !found {
                    acc.sample(json!({"scenario": j, "mode": "chess", "bound": bound}));
                }
            }
        }
    }
    fn rule(&self, tier: Tier) -> String {
        format!(
            "answer actions {:?} (rawv / raww = a raw response written through write_vectored / through plain write() calls of at most 64 bytes instead of write_all); n=2: every program, handler threads started in both forced orders (bound 0), all at once (strict bound 2), with the second request sent while the first handler already runs (connection thread parsing concurrently, bound 1), and at the SequentialWriter seam (ALL interleavings, unbounded); n=3: every program over 6 actions with all 6 forced orders, racing at strict bound 1{}; an upgrade() as the LAST request (101, then 10 or 1500 marker bytes written to the upgraded stream, flushed, dropped) after every action (n=2: both forced orders, racing at bound 2, late second request, seam) and after every pair of actions (n=3: 6 forced orders, racing at bound 1): the 101 and the stream bytes come after the earlier responses and the stream bytes arrive exactly as written; pipelines of 65 and 130 (thorough: 16, 65, 130, 300, 1030) requests with three programs (all respond / respond, unused writer, drop, two-part writer in turn / one respond followed by unused writers) answered in reverse, rotated and odd-then-even order at the default schedule; {} scenarios; oracle: the client stream parses into complete messages whose (status, request id) sequence is the request order (writers that emit nothing are skipped, a dropped request shows as 500), bodies carry their own request id, no hang; non-trivial = all",
            actions(tier).iter().map(|a| a.label()).collect::<Vec<_>>(),
            if tier == Tier::Thorough { " and at the seam at chess bound 2, plus chess bound 3 at the seam for the 27 programs over {respond, raw writer in two flushed parts, unused raw writer}; n=4: 4 actions, all 24 forced orders" } else { " and at the seam at chess bound 1; n=4: 3 actions (respond, unused raw writer, drop), all 24 forced orders" },
            items(tier).len()
        )
    }
    fn replay(&self, replay: &Value, acc: &mut Acc) {
        if replay["scenario"]["seam"].as_str() == Some("SequentialWriter") {
            let sc = SeamScenario { actions: replay["scenario"]["actions"].as_array().map(|a| a.iter().map(|x| Action::from_label(x.as_str().unwrap_or("drop"))).collect()).unwrap_or_default() };
            let s3 = sc.clone();
            replay_schedule::<SeamObs, _, _>(acc, replay, move |o| seam_body(sc.clone(), o), |o, r| seam_judge(&s3, o, r).into_iter().map(|(k, d)| (key_for(&s3.actions, &k), d)).collect());
        } else {
            let sc = SrvScenario::from_json(&replay["scenario"]);
            let s3 = sc.clone();
            replay_schedule::<SrvObs, _, _>(acc, replay, move |o| srv_body(sc.clone(), o), |o, r| srv_judge(&s3, o, r).into_iter().map(|(k, d)| (key_for(&s3.actions, &k), d)).collect());
        }
    }
}
