//! C07 / C17 at the component seam: the real `MessagesQueue` under every interleaving of
//! producers, consumers (pop / try_pop / pop_timeout) and unblock calls, with timeouts
//! that race with notifications on the virtual clock.

use crate::infra::*;
use crate::l2::*;
use serde_json::{json, Value};
use std::sync::{Arc, Mutex};
use std::time::Duration;
use tiny_http::verif_api::MessagesQueue;
use tiny_http::verif_rt::core::{AltKind, End, RunResult};
use tiny_http::verif_rt::explore::Mode;
use tiny_http::verif_rt::{ctl, thread};

pub const T_MS: u64 = 40;
const T_NS: u64 = T_MS * 1_000_000;

#[derive(Clone, Copy, Debug, PartialEq, Eq)]
pub enum Call {
    Pop,
    TryPop,
    PopTimeout,
}

#[derive(Clone, Copy, Debug, PartialEq, Eq)]
pub enum Delay {
    None,
    QuarterT,
    HalfT,
    TMinusHalfMs,
    T,
    /// 11/12 of the timeout
    NearT,
}

impl Delay {
    fn ns(&self, t_ms: u64) -> u64 {
        let t_ns = t_ms * 1_000_000;
        match self {
            Delay::None => 0,
            Delay::QuarterT => t_ns / 4,
            Delay::HalfT => t_ns / 2,
            Delay::TMinusHalfMs => t_ns - 500_000,
            Delay::T => t_ns,
            Delay::NearT => t_ns / 12 * 11,
        }
    }
}

#[derive(Clone, Debug, PartialEq)]
pub struct QScenario {
    pub consumers: Vec<Vec<Call>>,
    /// (delay before the first push, number of items)
    pub producers: Vec<(Delay, usize)>,
    pub unblocks: Vec<Delay>,
    /// consumers are started first and the system settles before anything is produced
    pub consumers_first: bool,
    /// one more thread that, for every entry, sleeps for the delay, pushes an element
    /// (false) or issues an unblock (true) and at once calls try_pop itself: the
    /// notification it has just sent finds the queue empty again (a receiver is woken for
    /// nothing, possibly several times during one call)
    pub churn: Vec<(Delay, bool)>,
    /// the timeout of the pop_timeout calls, and the unit of the delays (default T_MS)
    pub t_ms: u64,
}

impl QScenario {
    pub fn to_json(&self) -> Value {
        json!({
            "consumers": self.consumers.iter().map(|c| c.iter().map(|x| format!("{:?}", x)).collect::<Vec<_>>()).collect::<Vec<_>>(),
            "producers": self.producers.iter().map(|(d, n)| json!([format!("{:?}", d), n])).collect::<Vec<_>>(),
            "unblocks": self.unblocks.iter().map(|d| format!("{:?}", d)).collect::<Vec<_>>(),
            "consumers_first": self.consumers_first,
            "churn": self.churn.iter().map(|(d, u)| json!([format!("{:?}", d), u])).collect::<Vec<_>>(),
            "T_ms": self.t_ms,
        })
    }
    pub fn from_json(v: &Value) -> QScenario {
        let call = |s: &str| match s {
            "Pop" => Call::Pop,
            "TryPop" => Call::TryPop,
            _ => Call::PopTimeout,
        };
        let delay = |s: &str| match s {
            "None" => Delay::None,
            "QuarterT" => Delay::QuarterT,
            "HalfT" => Delay::HalfT,
            "TMinusHalfMs" => Delay::TMinusHalfMs,
            "NearT" => Delay::NearT,
            _ => Delay::T,
        };
        QScenario {
            consumers: v["consumers"].as_array().map(|a| a.iter().map(|c| c.as_array().map(|x| x.iter().map(|y| call(y.as_str().unwrap_or(""))).collect()).unwrap_or_default()).collect()).unwrap_or_default(),
            producers: v["producers"].as_array().map(|a| a.iter().map(|p| (delay(p[0].as_str().unwrap_or("")), p[1].as_u64().unwrap_or(1) as usize)).collect()).unwrap_or_default(),
            unblocks: v["unblocks"].as_array().map(|a| a.iter().map(|d| delay(d.as_str().unwrap_or(""))).collect()).unwrap_or_default(),
            consumers_first: v["consumers_first"].as_bool().unwrap_or(false),
            churn: v["churn"].as_array().map(|a| a.iter().map(|p| (delay(p[0].as_str().unwrap_or("")), p[1].as_bool().unwrap_or(false))).collect()).unwrap_or_default(),
            t_ms: v["T_ms"].as_u64().unwrap_or(T_MS),
        }
    }
}

#[derive(Clone, Debug, Default)]
pub struct CallObs {
    pub consumer: usize,
    pub idx: usize,
    pub kind: String,
    pub entered_ns: u64,
    /// (value, time, condvar waits entered during the call)
    pub returned: Option<(Option<u32>, u64, u64)>,
}

#[derive(Clone, Debug, Default)]
pub struct QObs {
    pub calls: Vec<CallObs>,
    pub pushed: Vec<u32>,
    /// at the first quiescence after all producers / unblockers finished:
    pub q1: Option<(usize, usize)>,
    pub blocked1: Vec<(usize, usize, String)>,
    /// after all timed waits have expired:
    pub q2: Option<(usize, usize)>,
    pub blocked2: Vec<(usize, usize, String)>,
    /// calls that had returned when the second quiescence was reached
    pub returned2: Vec<(usize, usize)>,
    pub finished: bool,
}

fn blocked_calls(o: &QObs) -> Vec<(usize, usize, String)> {
    o.calls
        .iter()
        .filter(|c| c.returned.is_none())
        .map(|c| (c.consumer, c.idx, c.kind.clone()))
        .collect()
}

pub fn body(sc: QScenario, obs: Arc<Mutex<QObs>>) {
    let t_ms = sc.t_ms;
    // std's Condvar may return from a wait that nobody notified: offered as a deviation
    ctl::spurious(crate::l2::spurious_now());
    let q: Arc<MessagesQueue<u32>> = MessagesQueue::with_capacity(8);
    let mut hs = Vec::new();
    for (ci, prog) in sc.consumers.iter().enumerate() {
        let (q, obs, prog) = (q.clone(), obs.clone(), prog.clone());
        hs.push(thread::spawn_named(Some(format!("consumer{}", ci)), move || {
            for (k, call) in prog.iter().enumerate() {
                let slot = {
                    let mut o = obs.lock().unwrap();
                    o.calls.push(CallObs {
                        consumer: ci,
                        idx: k,
                        kind: format!("{:?}", call),
                        entered_ns: ctl::clock_ns(),
                        returned: None,
                    });
                    o.calls.len() - 1
                };
                let w0 = ctl::my_blocking_ops();
                let r = match call {
                    Call::Pop => q.pop(),
                    Call::TryPop => q.try_pop(),
                    Call::PopTimeout => q.pop_timeout(Duration::from_millis(t_ms)),
                };
                let w1 = ctl::my_blocking_ops();
                obs.lock().unwrap().calls[slot].returned = Some((r, ctl::clock_ns(), w1 - w0));
            }
        }));
    }
    if sc.consumers_first {
        ctl::settle();
    }
    let mut ps = Vec::new();
    let mut next_id = 0u32;
    for (pi, (d, n)) in sc.producers.iter().enumerate() {
        let ids: Vec<u32> = (0..*n as u32).map(|i| (pi as u32 + 1) * 1_000_000 + i).collect();
        next_id += ids.len() as u32;
        obs.lock().unwrap().pushed.extend(ids.iter());
        let (q, d) = (q.clone(), *d);
        ps.push(thread::spawn_named(Some(format!("producer{}", pi)), move || {
            if d != Delay::None {
                ctl::sleep(Duration::from_nanos(d.ns(t_ms)));
            }
            for id in ids {
                q.push(id);
            }
        }));
    }
    let _ = next_id;
    for (ui, d) in sc.unblocks.iter().enumerate() {
        let (q, d) = (q.clone(), *d);
        ps.push(thread::spawn_named(Some(format!("unblocker{}", ui)), move || {
            if d != Delay::None {
                ctl::sleep(Duration::from_nanos(d.ns(t_ms)));
            }
            q.unblock();
        }));
    }
    if !sc.churn.is_empty() {
        let ids: Vec<u32> = (0..sc.churn.len() as u32).map(|i| 9_000_000 + i).collect();
        {
            let mut o = obs.lock().unwrap();
            for (i, (_, unb)) in sc.churn.iter().enumerate() {
                if !*unb {
                    o.pushed.push(ids[i]);
                }
            }
        }
        let (q, obs, churn, ci) = (q.clone(), obs.clone(), sc.churn.clone(), sc.consumers.len());
        ps.push(thread::spawn_named(Some("churner".into()), move || {
            for (k, (d, unb)) in churn.iter().enumerate() {
                if *d != Delay::None {
                    ctl::sleep(Duration::from_nanos(d.ns(t_ms)));
                }
                if *unb {
                    q.unblock();
                } else {
                    q.push(ids[k]);
                }
                let slot = {
                    let mut o = obs.lock().unwrap();
                    o.calls.push(CallObs { consumer: ci, idx: k, kind: "TryPop".into(), entered_ns: ctl::clock_ns(), returned: None });
                    o.calls.len() - 1
                };
                let w0 = ctl::my_blocking_ops();
                let r = q.try_pop();
                let w1 = ctl::my_blocking_ops();
                obs.lock().unwrap().calls[slot].returned = Some((r, ctl::clock_ns(), w1 - w0));
            }
        }));
    }
    for p in ps {
        let _ = p.join();
    }
    ctl::settle();
    ctl::window(false);
    {
        let snap = q.verif_snapshot();
        let mut o = obs.lock().unwrap();
        o.q1 = Some(snap);
        o.blocked1 = blocked_calls(&o);
    }
    // let every timed wait expire (twice the timeout is the documented maximum)
    ctl::sleep(Duration::from_millis(4 * t_ms));
    ctl::settle();
    {
        let snap = q.verif_snapshot();
        let mut o = obs.lock().unwrap();
        o.q2 = Some(snap);
        o.blocked2 = blocked_calls(&o);
        o.returned2 = o.calls.iter().filter(|c| c.returned.is_some()).map(|c| (c.consumer, c.idx)).collect();
    }
    // release whoever is still (legitimately) blocked so that the execution ends
    let total_calls: usize = sc.consumers.iter().map(|c| c.len()).sum::<usize>() + sc.churn.len();
    for _ in 0..=total_calls {
        if blocked_calls(&obs.lock().unwrap()).is_empty() {
            break;
        }
        q.unblock();
        ctl::settle();
    }
    for h in hs {
        let _ = h.join();
    }
    obs.lock().unwrap().finished = true;
}

/// which = "C07" or "C17": the clauses of that property
pub fn judge(sc: &QScenario, o: &QObs, res: &RunResult, which: &str) -> Vec<(String, String)> {
    let (t_ms, t_ns) = (sc.t_ms, sc.t_ms * 1_000_000);
    let mut f: Vec<(String, String)> = Vec::new();
    for p in &res.panics {
        f.push(("panic".into(), format!("{} at {}", p.message, p.location)));
    }
    if res.end == End::Diverged {
        return vec![("machinery".into(), format!("{:?}", res.divergence))];
    }
    let (q1, q2) = match (o.q1, o.q2) {
        (Some(a), Some(b)) => (a, b),
        _ => {
            f.push(("hang".into(), format!("the harness never reached quiescence: {:?}", res.blocked)));
            return f;
        }
    };
    let u = sc.unblocks.len() + sc.churn.iter().filter(|c| c.1).count();
    if which == "C07" {
        // no request stays queued while a receiver remains blocked
        if q1.0 > 0 && !o.blocked1.is_empty() {
            let timed = o.blocked1.iter().all(|b| b.2 == "PopTimeout");
            f.push((
                if timed { "lost-wakeup:timed-receiver-only".into() } else { "lost-wakeup".into() },
                format!(
                    "{} element(s) queued while receiver(s) {:?} stay blocked (nothing else can run)",
                    q1.0, o.blocked1
                ),
            ));
        }
        // exactly once, nothing invented, nothing lost
        let before_q2 = |c: &&CallObs| o.returned2.iter().any(|b| b.0 == c.consumer && b.1 == c.idx);
        let returned: Vec<u32> = o.calls.iter().filter(before_q2).filter_map(|c| c.returned.and_then(|r| r.0)).collect();
        let mut sorted = returned.clone();
        sorted.sort();
        let mut dedup = sorted.clone();
        dedup.dedup();
        if dedup.len() != sorted.len() {
            f.push(("duplicate-delivery".into(), format!("elements returned {:?}", returned)));
        }
        if returned.iter().any(|r| !o.pushed.contains(r)) {
            f.push(("invented-element".into(), format!("elements returned {:?}, pushed {:?}", returned, o.pushed)));
        }
        if o.finished && returned.len() + q2.0 != o.pushed.len() {
            f.push((
                "lost-element".into(),
                format!("pushed {:?}, returned {:?}, still queued {}", o.pushed, returned, q2.0),
            ));
        }
        // one receiver sees the elements of one producer in order
        for ci in 0..sc.consumers.len() {
            let mine: Vec<u32> = o.calls.iter().filter(|c| c.consumer == ci).filter_map(|c| c.returned.and_then(|r| r.0)).collect();
            for p in (1..=sc.producers.len() as u32).chain(std::iter::once(9)) {
                let of_p: Vec<u32> = mine.iter().copied().filter(|x| x / 1_000_000 == p).collect();
                let mut s = of_p.clone();
                s.sort();
                if s != of_p {
                    f.push(("reordered".into(), format!("consumer {} saw producer {}'s elements as {:?}", ci, p, of_p)));
                }
            }
        }
    }
    if which == "C17" {
        if q1.1 > 0 && !o.blocked1.is_empty() {
            f.push((
                "unblock-releases-nobody".into(),
                format!("{} unblock token(s) queued while receiver(s) {:?} stay blocked", q1.1, o.blocked1),
            ));
        }
        if o.finished {
            let pops_none = o.calls.iter().filter(|c| c.kind == "Pop" && matches!(c.returned, Some((None, _, _)))).count();
            // the cleanup phase releases blocked pops with extra unblocks: count only what
            // happened before the second quiescence
            let pops_none_before: usize = o
                .calls
                .iter()
                .filter(|c| c.kind == "Pop" && matches!(c.returned, Some((None, _, _))))
                .filter(|c| o.returned2.iter().any(|b| b.0 == c.consumer && b.1 == c.idx))
                .count();
            let _ = pops_none;
            let all_none_before: usize = o
                .calls
                .iter()
                .filter(|c| matches!(c.returned, Some((None, _, _))))
                .filter(|c| o.returned2.iter().any(|b| b.0 == c.consumer && b.1 == c.idx))
                .count();
            let early_timed_none: usize = o
                .calls
                .iter()
                .filter(|c| c.kind == "PopTimeout")
                .filter(|c| match c.returned {
                    Some((None, t, _)) => t - c.entered_ns < t_ns - 1_000_000,
                    _ => false,
                })
                .count();
            let consumed = u as i64 - q2.1 as i64;
            if consumed < 0 {
                f.push(("token-invented".into(), format!("{} unblock calls but {} tokens queued", u, q2.1)));
            }
            if (pops_none_before + early_timed_none) as i64 > consumed {
                f.push((
                    "released-without-unblock".into(),
                    format!(
                        "{} recv-style calls returned empty-handed and {} timed calls returned empty before their timeout, but only {} unblock tokens were consumed",
                        pops_none_before, early_timed_none, consumed
                    ),
                ));
            }
            if consumed > all_none_before as i64 {
                f.push((
                    "unblock-discarded".into(),
                    format!("{} unblock tokens consumed but only {} calls returned empty-handed", consumed, all_none_before),
                ));
            }
            // n calls release n receivers: with enough blocked recv callers and no elements
            let only_pops = sc.consumers.iter().all(|c| c.len() == 1 && c[0] == Call::Pop);
            if only_pops && sc.producers.is_empty() && sc.churn.is_empty() && sc.consumers.len() >= u && pops_none_before != u {
                f.push((
                    "wrong-number-released".into(),
                    format!("{} unblock calls released {} of {} blocked receivers", u, pops_none_before, sc.consumers.len()),
                ));
            }
            // no element lost / duplicated by unblocking
            let returned: Vec<u32> = o
                .calls
                .iter()
                .filter(|c| o.returned2.iter().any(|b| b.0 == c.consumer && b.1 == c.idx))
                .filter_map(|c| c.returned.and_then(|r| r.0))
                .collect();
            if returned.len() + q2.0 != o.pushed.len() {
                f.push(("unblock-loses-element".into(), format!("pushed {:?}, returned {:?}, still queued {}", o.pushed, returned, q2.0)));
            }
        }
        // try_recv never blocks
        for c in &o.calls {
            if c.kind == "TryPop" {
                if let Some((_, t, waits)) = c.returned {
                    let _ = t;
                    if waits > 0 {
                        f.push(("try-recv-blocked".into(), format!("try_pop of consumer {} entered {} condvar wait(s)", c.consumer, waits)));
                    }
                }
            }
        }
        // recv_timeout bounds (virtual clock)
        let timer_deviation = res.decisions.iter().any(|d| matches!(d.kinds[d.chosen as usize], AltKind::Timer | AltKind::Late));
        for c in &o.calls {
            if c.kind == "PopTimeout" {
                if let Some((v, t, _)) = c.returned {
                    let el = t - c.entered_ns;
                    if v.is_none() && !timer_deviation && el > 2 * t_ns {
                        f.push(("recv-timeout-too-late".into(), format!("pop_timeout({} ms) returned empty after {} ns", t_ms, el)));
                    }
                }
            }
        }
        // a timed call that returns empty before its timeout must be explained by a token
        if u == 0 {
            for c in &o.calls {
                if c.kind == "PopTimeout" {
                    if let Some((None, t, _)) = c.returned {
                        if t - c.entered_ns < t_ns - 1_000_000 {
                            f.push(("recv-timeout-too-early".into(), format!("pop_timeout({} ms) returned empty after {} ns without any unblock", t_ms, t - c.entered_ns)));
                        }
                    }
                }
            }
        }
    }
    if res.end != End::Clean && f.is_empty() {
        f.push(("hang".into(), format!("execution ended {:?}: {:?}", res.end, res.blocked)));
    }
    f
}

pub fn programs(max_calls: usize) -> Vec<Vec<Call>> {
    let one = vec![vec![Call::Pop], vec![Call::PopTimeout], vec![Call::TryPop]];
    if max_calls == 1 {
        return one;
    }
    let mut v = one;
    v.push(vec![Call::Pop, Call::Pop]);
    v.push(vec![Call::PopTimeout, Call::Pop]);
    v.push(vec![Call::PopTimeout, Call::PopTimeout]);
    v.push(vec![Call::TryPop, Call::Pop]);
    v.push(vec![Call::TryPop, Call::PopTimeout]);
    v
}


/// receivers woken for nothing: a churner pushes (or unblocks) and takes the element back
/// itself, one to three times during one call of the receivers
fn churn_scenarios(which: &str, tier: Tier) -> Vec<QScenario> {
    let mut v = Vec::new();
    let receivers: Vec<Vec<Vec<Call>>> = vec![
        vec![vec![Call::PopTimeout]],
        vec![vec![Call::Pop]],
        vec![vec![Call::PopTimeout, Call::PopTimeout]],
        vec![vec![Call::PopTimeout], vec![Call::Pop]],
        vec![vec![Call::PopTimeout], vec![Call::PopTimeout]],
    ];
    let q = Delay::QuarterT;
    let mut churns: Vec<Vec<(Delay, bool)>> = vec![
        vec![(q, false)],
        vec![(q, false), (q, false)],
        vec![(Delay::HalfT, false), (q, false)],
        vec![(q, false), (Delay::HalfT, false)],
        vec![(q, false), (q, false), (q, false)],
        vec![(q, true), (q, true)],
        vec![(q, false), (q, true)],
        vec![(q, true), (q, false)],
        vec![(Delay::None, false), (Delay::TMinusHalfMs, false)],
    ];
    if tier == Tier::Thorough {
        churns.push(vec![(q, false), (q, false), (q, false), (q, false)]);
        churns.push(vec![(Delay::HalfT, false), (Delay::HalfT, false), (Delay::HalfT, false)]);
        churns.push(vec![(q, true), (q, true), (q, true)]);
    }
    // the same with timeouts whose arithmetic crosses unit boundaries (whole seconds and
    // sub-second parts, minutes): futile wake-ups late in each wait
    if which == "C17" {
        let near = Delay::NearT;
        for t_ms in if tier == Tier::Thorough { vec![1_200u64, 2_500, 61_000, 3_600_000] } else { vec![1_200u64, 61_000] } {
            for r in [vec![vec![Call::PopTimeout]], vec![vec![Call::PopTimeout], vec![Call::Pop]]] {
                for c in [
                    vec![(near, false)],
                    vec![(near, false), (near, false)],
                    vec![(near, true), (near, false)],
                    vec![(Delay::HalfT, false), (near, false)],
                    vec![(near, false), (Delay::HalfT, false)],
                    vec![(Delay::QuarterT, false), (Delay::QuarterT, false), (Delay::QuarterT, false)],
                ] {
                    v.push(QScenario { consumers: r.clone(), producers: vec![], unblocks: vec![], consumers_first: true, churn: c, t_ms });
                }
                // and without any wake-up at all, and with a request near the end
                v.push(QScenario { consumers: r.clone(), producers: vec![], unblocks: vec![], consumers_first: true, churn: vec![], t_ms });
                v.push(QScenario { consumers: r.clone(), producers: vec![(near, 1)], unblocks: vec![], consumers_first: true, churn: vec![], t_ms });
            }
        }
    }
    for r in &receivers {
        for c in &churns {
            for late in [None, Some(Delay::T)] {
                if which == "C17" && late.is_some() && tier == Tier::Quick && c.len() != 2 {
                    continue;
                }
                v.push(QScenario {
                    consumers: r.clone(),
                    producers: late.map(|d| vec![(d, 1)]).unwrap_or_default(),
                    unblocks: vec![],
                    consumers_first: true,
                    churn: c.clone(),
                    t_ms: T_MS,
                });
            }
        }
    }
    v
}

pub fn scenarios_c07(tier: Tier) -> Vec<QScenario> {
    let mut v = Vec::new();
    let progs = programs(if tier == Tier::Thorough { 2 } else { 1 });
    let delays = [Delay::None, Delay::HalfT, Delay::TMinusHalfMs, Delay::T];
    let mut consumer_sets: Vec<Vec<Vec<Call>>> = Vec::new();
    for a in &progs {
        consumer_sets.push(vec![a.clone()]);
    }
    for (i, a) in progs.iter().enumerate() {
        for b in &progs[i..] {
            consumer_sets.push(vec![a.clone(), b.clone()]);
        }
    }
    consumer_sets.push(vec![vec![Call::Pop], vec![Call::Pop], vec![Call::PopTimeout]]);
    consumer_sets.push(vec![vec![Call::PopTimeout], vec![Call::PopTimeout], vec![Call::Pop]]);
    if tier == Tier::Thorough {
        consumer_sets.push(vec![vec![Call::Pop], vec![Call::Pop], vec![Call::Pop]]);
        consumer_sets.push(vec![vec![Call::Pop], vec![Call::TryPop], vec![Call::PopTimeout]]);
    }
    let mut producer_sets: Vec<Vec<(Delay, usize)>> = Vec::new();
    for d in delays {
        producer_sets.push(vec![(d, 1)]);
        producer_sets.push(vec![(d, 2)]);
        producer_sets.push(vec![(Delay::None, 1), (d, 1)]);
        if tier == Tier::Thorough {
            producer_sets.push(vec![(d, 2), (Delay::HalfT, 1)]);
        }
    }
    for cs in &consumer_sets {
        for ps in &producer_sets {
            for u in [0usize, 1] {
                for first in [true, false] {
                    if tier == Tier::Quick && u == 1 && !first {
                        continue;
                    }
                    v.push(QScenario {
                        consumers: cs.clone(),
                        producers: ps.clone(),
                        unblocks: vec![Delay::HalfT; u],
                        consumers_first: first,
                        churn: vec![],
                        t_ms: T_MS,
                    });
                }
            }
        }
    }
    v.extend(churn_scenarios("C07", tier));
    // magnitudes (default schedule): far more elements than the queue's initial capacity (8)
    // and than any plausible fixed bound, with receivers blocked first or arriving later
    for total in if tier == Tier::Thorough { vec![100usize, 1030, 5000] } else { vec![100usize, 1030] } {
        for first in [true, false] {
            v.push(QScenario { consumers: vec![vec![Call::Pop; total]], producers: vec![(Delay::None, total)], unblocks: vec![], consumers_first: first, churn: vec![], t_ms: T_MS });
            v.push(QScenario { consumers: vec![vec![Call::Pop; total / 2], vec![Call::PopTimeout; total / 2]], producers: vec![(Delay::None, total / 2), (Delay::HalfT, total / 2)], unblocks: vec![], consumers_first: first, churn: vec![], t_ms: T_MS });
            v.push(QScenario { consumers: vec![vec![Call::TryPop; total], vec![Call::Pop; total]], producers: vec![(Delay::None, total)], unblocks: vec![], consumers_first: first, churn: vec![], t_ms: T_MS });
        }
    }
    v
}

pub fn scenarios_c17(tier: Tier) -> Vec<QScenario> {
    let mut v = Vec::new();
    let delays = [Delay::None, Delay::HalfT, Delay::TMinusHalfMs, Delay::T];
    // blocked recv callers only: exactly u of c are released
    for c in 1..=3usize {
        for u in 1..=3usize {
            for first in [true, false] {
                for d in [Delay::None, Delay::HalfT] {
                    v.push(QScenario {
                        consumers: vec![vec![Call::Pop]; c],
                        producers: vec![],
                        unblocks: vec![d; u],
                        consumers_first: first,
                        churn: vec![],
                        t_ms: T_MS,
                    });
                }
            }
        }
    }
    // several unblock tokens (and possibly an element behind them) already queued when
    // non-blocking and blocking receivers arrive: each token must release exactly one call
    for cs in [
        vec![vec![Call::TryPop]],
        vec![vec![Call::TryPop, Call::Pop]],
        vec![vec![Call::TryPop, Call::TryPop, Call::TryPop]],
        vec![vec![Call::TryPop], vec![Call::Pop]],
        vec![vec![Call::TryPop], vec![Call::PopTimeout]],
        vec![vec![Call::PopTimeout, Call::TryPop]],
        vec![vec![Call::Pop], vec![Call::Pop], vec![Call::TryPop]],
    ] {
        for u in 2..=3usize {
            for items in [0usize, 1] {
                v.push(QScenario {
                    consumers: cs.clone(),
                    producers: if items == 0 { vec![] } else { vec![(Delay::None, 1)] },
                    unblocks: vec![Delay::None; u],
                    consumers_first: false,
                    churn: vec![],
                    t_ms: T_MS,
                });
            }
        }
    }
    // mixes of the receive calls, with and without elements, unblock before / while / after
    let progs = programs(if tier == Tier::Thorough { 2 } else { 1 });
    let mut consumer_sets: Vec<Vec<Vec<Call>>> = Vec::new();
    for a in &progs {
        consumer_sets.push(vec![a.clone()]);
    }
    for (i, a) in progs.iter().enumerate() {
        for b in &progs[i..] {
            consumer_sets.push(vec![a.clone(), b.clone()]);
        }
    }
    consumer_sets.push(vec![vec![Call::PopTimeout], vec![Call::Pop], vec![Call::Pop]]);
    for cs in &consumer_sets {
        for items in [0usize, 1] {
            for u in 1..=(if tier == Tier::Thorough { 2 } else { 1 }) {
                for d in delays {
                    for first in [true, false] {
                        if tier == Tier::Quick && !first && d != Delay::TMinusHalfMs {
                            continue;
                        }
                        v.push(QScenario {
                            consumers: cs.clone(),
                            producers: if items == 0 { vec![] } else { vec![(Delay::HalfT, 1)] },
                            unblocks: vec![d; u],
                            consumers_first: first,
                        churn: vec![],
                        t_ms: T_MS,
                        });
                    }
                }
            }
        }
    }
    v.extend(churn_scenarios("C17", tier));
    // magnitudes (default schedule): many unblock calls against many blocked receivers
    for total in if tier == Tier::Thorough { vec![100usize, 1030] } else { vec![100usize] } {
        for first in [true, false] {
            v.push(QScenario { consumers: vec![vec![Call::Pop]; total], producers: vec![], unblocks: vec![Delay::None; total], consumers_first: first, churn: vec![], t_ms: T_MS });
            v.push(QScenario { consumers: vec![vec![Call::Pop; total]], producers: vec![(Delay::None, total / 2)], unblocks: vec![Delay::None; total / 2], consumers_first: first, churn: vec![], t_ms: T_MS });
        }
    }
    v
}

/// (mode, bound): CHESS costs (switching when the running thread blocks is free) are
/// exponential in the number of blocking points, so they are used for up to 3 threads
/// sharing the queue; larger scenarios charge every departure from the default schedule.
pub fn bound_for(sc: &QScenario, tier: Tier) -> (Mode, u32) {
    let threads = sc.consumers.len() + sc.producers.len() + sc.unblocks.len() + if sc.churn.is_empty() { 0 } else { 1 };
    let volume: usize = sc.consumers.iter().map(|c| c.len()).sum::<usize>() + sc.producers.iter().map(|p| p.1).sum::<usize>();
    if volume > 60 {
        // magnitude scenarios: default schedule only
        return (Mode::Strict, 0);
    }
    match tier {
        Tier::Quick => {
            if threads <= 3 {
                (Mode::Chess, 2)
            } else {
                (Mode::Strict, 2)
            }
        }
        Tier::Thorough => {
            if threads <= 2 {
                (Mode::Chess, 4)
            } else if threads <= 3 {
                (Mode::Chess, 3)
            } else {
                (Mode::Strict, 3)
            }
        }
    }
}

pub fn cfg_for(sc: &QScenario, tier: Tier) -> L2Cfg {
    let (mode, bound) = bound_for(sc, tier);
    L2Cfg {
        mode,
        bound: Some(bound),
        max_execs: if tier == Tier::Thorough { 3_000_000 } else { 200_000 },
        wall: std::time::Duration::from_secs(if tier == Tier::Thorough { 400 } else { 40 }),
        spurious_upto: Some(if tier == Tier::Thorough { bound.saturating_sub(1) } else { bound }),
    }
}

pub struct QueueCheck {
    pub which: &'static str,
}

impl QueueCheck {
    fn scenarios(&self, tier: Tier) -> Vec<QScenario> {
        if self.which == "C07" {
            scenarios_c07(tier)
        } else {
            scenarios_c17(tier)
        }
    }
}

pub fn run_queue_item(which: &'static str, sc: &QScenario, tier: Tier, acc: &mut Acc) {
    let cfg = cfg_for(sc, tier);
    let sc2 = sc.clone();
    let sc3 = sc.clone();
    let found = explore_scenario::<QObs, _, _>(
        &cfg,
        acc,
        &sc.to_json(),
        move |o| body(sc2.clone(), o),
        |o, r| judge(&sc3, o, r, which),
    );
    acc.nontrivial += 1;
    if !found && acc.samples.len() < 3 {
        acc.sample(json!({"seam": "MessagesQueue", "scenario": sc.to_json(), "mode": mode_name(cfg.mode), "bound": cfg.bound}));
    }
}

pub fn replay_queue(which: &'static str, replay: &Value, acc: &mut Acc) {
    let sc = QScenario::from_json(&replay["scenario"]);
    let sc2 = sc.clone();
    replay_schedule::<QObs, _, _>(acc, replay, move |o| body(sc2.clone(), o), |o, r| judge(&sc, o, r, which));
}

pub fn rule_text(which: &str, tier: Tier, n: usize) -> String {
    let fam = if which == "C07" {
        "consumers: every multiset of 1..2 receiver programs (+ selected triples) over {pop, pop_timeout(T), try_pop}(thorough: programs of up to 2 calls) x producers {1x1, 1x2, 2x1 elements} with start delay in {0, T/2, T-0.5ms, T} x 0..1 unblock x receivers blocked first or racing"
    } else {
        "1..3 blocked recv callers x 1..3 unblock calls (exactly min(u,c) must be released); every multiset of 1..2 receiver programs over {pop, pop_timeout(T), try_pop} x 0..1 queued element x 1..2 unblock calls issued at {0, T/2, T-0.5ms, T} x receivers blocked first or racing"
    };
    format!(
        "real MessagesQueue<u32>, T = {} ms virtual; {}; plus magnitude scenarios at the default schedule (C07: 100 / 1030 (thorough 5000) elements through one or two receivers; C17: 100 (thorough 1030) unblock calls against as many blocked receivers); plus churn scenarios (a thread that pushes or unblocks and at once takes the element back with try_pop, 1..3 times (thorough: 4) at T/4..T/2 intervals, so that blocked receivers {{recv_timeout, recv, two calls, pairs}} are woken for nothing several times during one call; C17 also with timeouts of 1.2 s and 61 s (thorough: 2.5 s, 1 h) and futile wake-ups at 11/12, 1/2, 1/4 of each wait); {} scenarios, each explored for ALL schedules with at most {} deviations (a preemption, an early timeout, an unusual notify_one wake-up, a SPURIOUS return from a condition-variable wait, or a notified timed wait that is scheduled only after its deadline (LATE) costs 1; choosing among the runnable threads when the running one blocks is free for <= 3 threads [chess] and costs 1 otherwise [strict]), bounds iterated from 0; every execution judged at quiescence (conservation, exactly-once, per-producer order, no element or unblock token queued while a receiver is blocked, token accounting, try_pop enters no wait, virtual-time bounds); non-trivial = every scenario has >= 2 threads sharing the queue",
        T_MS, fam, n, if tier == Tier::Thorough { "4 chess / 3 chess / 3 strict (for <= 2 / 3 / more threads sharing the queue)" } else { "2 chess / 2 strict (for <= 3 / more threads sharing the queue)" }
    )
}

// ------------------------------------------------------------------------- sequential family
//
// Every sequence of queue operations up to a depth, executed by ONE thread (so the state
// before and after every call is known exactly through verif_snapshot), judged by what
// the statement of C17 pins down:
//   * a receive call that returns empty-handed while a request is queued must have
//     consumed exactly one unblock token (nothing else justifies withholding a request);
//   * a receive call that returns a request consumed no token, and requests come out in
//     the order they were pushed, each exactly once;
//   * unblock adds one token, push adds one request; nothing else changes the counts;
//   * try_pop never enters a wait; pop_timeout on an empty queue takes >= T - 1 ms.
// Where tokens sit relative to queued requests is NOT pinned down (not in the statement).

#[derive(Clone, Copy, Debug, PartialEq, Eq)]
pub enum SeqOp {
    Push,
    Unblock,
    TryPop,
    PopTimeout,
    /// only generated when something is queued (it would block for ever otherwise)
    Pop,
}

pub fn seq_ops_from_index(mut idx: u64, depth: usize) -> Vec<SeqOp> {
    let all = [SeqOp::Push, SeqOp::Unblock, SeqOp::TryPop, SeqOp::PopTimeout, SeqOp::Pop];
    let mut v = Vec::new();
    for _ in 0..depth {
        v.push(all[(idx % 5) as usize]);
        idx /= 5;
    }
    v
}

#[derive(Clone, Debug, Default)]
pub struct SeqObs {
    /// (operation, snapshot before, returned, snapshot after, virtual ns taken, waits entered)
    pub steps: Vec<(String, (usize, usize), Option<Option<u32>>, (usize, usize), u64, u64)>,
    pub skipped_blocking_pop: bool,
}

pub fn seq_body(ops: Vec<SeqOp>, obs: Arc<Mutex<SeqObs>>) {
    let q: Arc<MessagesQueue<u32>> = MessagesQueue::with_capacity(8);
    let mut next = 1u32;
    for op in ops {
        let before = q.verif_snapshot();
        let t0 = ctl::clock_ns();
        let w0 = ctl::my_blocking_ops();
        let ret: Option<Option<u32>> = match op {
            SeqOp::Push => {
                q.push(next);
                next += 1;
                None
            }
            SeqOp::Unblock => {
                q.unblock();
                None
            }
            SeqOp::TryPop => Some(q.try_pop()),
            SeqOp::PopTimeout => Some(q.pop_timeout(Duration::from_millis(T_MS))),
            SeqOp::Pop => {
                if before.0 + before.1 == 0 {
                    obs.lock().unwrap().skipped_blocking_pop = true;
                    continue;
                }
                Some(q.pop())
            }
        };
        let after = q.verif_snapshot();
        obs.lock().unwrap().steps.push((format!("{:?}", op), before, ret, after, ctl::clock_ns() - t0, ctl::my_blocking_ops() - w0));
    }
}

pub fn seq_judge(o: &SeqObs, res: &RunResult) -> Vec<(String, String)> {
    let mut f = Vec::new();
    for p in &res.panics {
        f.push(("panic".to_string(), format!("{} at {}", p.message, p.location)));
    }
    if res.end != End::Clean {
        f.push(("hang".into(), format!("sequential program did not finish: {:?} {:?}", res.end, res.blocked)));
        return f;
    }
    let mut expect_next = 1u32;
    for (i, (op, b, ret, a, took, waits)) in o.steps.iter().enumerate() {
        let ctx = format!("step {} {} with (requests, tokens) {:?} -> {:?}, returned {:?}", i, op, b, a, ret);
        match (op.as_str(), ret) {
            ("Push", _) => {
                if *a != (b.0 + 1, b.1) {
                    f.push(("sequential:push".into(), ctx.clone()));
                }
            }
            ("Unblock", _) => {
                if *a != (b.0, b.1 + 1) {
                    f.push(("sequential:unblock-token-count".into(), ctx.clone()));
                }
            }
            (_, Some(Some(v))) => {
                if *a != (b.0.wrapping_sub(1), b.1) || b.0 == 0 {
                    f.push(("sequential:request-return-changes-tokens".into(), ctx.clone()));
                }
                if *v != expect_next {
                    f.push(("sequential:request-order".into(), format!("{}; expected request {}", ctx, expect_next)));
                }
                expect_next = *v + 1;
            }
            (_, Some(None)) => {
                if b.0 > 0 && !(a.1 + 1 == b.1 && a.0 == b.0) {
                    f.push((
                        "sequential:empty-handed-although-request-queued".into(),
                        format!("{}: a receive call may only return without a request while one is queued if it consumes an unblock", ctx),
                    ));
                }
                if b.0 == 0 && !(a.0 == 0 && (a.1 == b.1 || a.1 + 1 == b.1)) {
                    f.push(("sequential:token-count".into(), ctx.clone()));
                }
                if op == "Pop" && a.1 + 1 != b.1 {
                    f.push(("sequential:recv-error-without-unblock".into(), ctx.clone()));
                }
                if op == "PopTimeout" && a.1 == b.1 && *took < T_NS - 1_000_000 {
                    f.push(("sequential:recv-timeout-too-early".into(), format!("{}; took {} ns", ctx, took)));
                }
                if op == "PopTimeout" && *took > 2 * T_NS {
                    f.push(("sequential:recv-timeout-too-late".into(), format!("{}; took {} ns", ctx, took)));
                }
            }
            _ => (),
        }
        if op == "TryPop" && *waits > 0 {
            f.push(("sequential:try-recv-blocked".into(), ctx.clone()));
        }
    }
    f
}

pub const SEQ_DEPTH_QUICK: usize = 5;
pub const SEQ_DEPTH_THOROUGH: usize = 7;

pub fn seq_items(tier: Tier) -> u64 {
    // one work item = 25 sequences (the two slowest-varying operations fixed)
    let d = if tier == Tier::Thorough { SEQ_DEPTH_THOROUGH } else { SEQ_DEPTH_QUICK };
    5u64.pow(d as u32) / 25
}

pub fn seq_run_item(item: u64, tier: Tier, acc: &mut Acc) {
    let d = if tier == Tier::Thorough { SEQ_DEPTH_THOROUGH } else { SEQ_DEPTH_QUICK };
    for k in 0..25u64 {
        let idx = item * 25 + k;
        let ops = seq_ops_from_index(idx, d);
        let o: Arc<Mutex<SeqObs>> = Arc::new(Mutex::new(SeqObs::default()));
        let (o2, ops2) = (o.clone(), ops.clone());
        let res = ctl::run(&tiny_http::verif_rt::core::RunCfg::default(), move || seq_body(ops2, o2));
        let ob = o.lock().unwrap().clone();
        acc.evals += 1;
        acc.execs += 1;
        acc.points += res.points;
        acc.decisions += res.decisions.len() as u64;
        acc.leaked_threads += res.leaked_threads as u64;
        acc.nontrivial += 1;
        acc.count("sequential_programs", 1);
        acc.outcomes.insert(hash_str(&format!("{:?}", ob.steps.iter().map(|s| (s.0.clone(), s.2, s.3)).collect::<Vec<_>>())));
        let mut seen = std::collections::BTreeSet::new();
        for (key, desc) in seq_judge(&ob, &res) {
            if seen.insert(key.clone()) {
                acc.violation(&key, desc, json!({"sequential_ops": ops.iter().map(|x| format!("{:?}", x)).collect::<Vec<_>>()}));
            }
        }
    }
}

pub fn seq_replay(replay: &Value, acc: &mut Acc) {
    let ops: Vec<SeqOp> = replay["sequential_ops"]
        .as_array()
        .map(|a| {
            a.iter()
                .map(|x| match x.as_str().unwrap_or("") {
                    "Push" => SeqOp::Push,
                    "Unblock" => SeqOp::Unblock,
                    "TryPop" => SeqOp::TryPop,
                    "PopTimeout" => SeqOp::PopTimeout,
                    _ => SeqOp::Pop,
                })
                .collect()
        })
        .unwrap_or_default();
    let o: Arc<Mutex<SeqObs>> = Arc::new(Mutex::new(SeqObs::default()));
    let (o2, ops2) = (o.clone(), ops.clone());
    let res = ctl::run(&tiny_http::verif_rt::core::RunCfg { trace: true, ..Default::default() }, move || seq_body(ops2, o2));
    let ob = o.lock().unwrap().clone();
    acc.notes.insert(format!("{}\n{:#?}", res.trace.join("\n"), ob));
    for (key, desc) in seq_judge(&ob, &res) {
        acc.violation(&key, desc, replay.clone());
    }
}
