//! C14 — no client input aborts the process, panics a thread or forces huge allocation.
//! Every scenario runs in a worker process with a capped address space; a dying worker
//! is attributed to the scenario it was running.

use crate::alloc;
use crate::gen::*;
use crate::infra::*;
use crate::judge::judge_robust;
use crate::l1::*;
use crate::runner::*;
use serde_json::{json, Value};
use std::sync::OnceLock;
use tiny_http::verif_rt::core::RunCfg;

pub struct C14;

/// This check is cheap: the quick tier already runs the full alphabet (what used to be the
/// thorough tier); `deep` marks the extras that only the thorough tier adds.
#[allow(dead_code)]
fn full(_t: Tier) -> bool {
    true
}
#[allow(dead_code)]
fn deep(t: Tier) -> bool {
    t == Tier::Thorough
}

#[derive(Clone, Debug)]
struct Case {
    class: String,
    sc: Scenario,
}

fn handlers() -> Vec<(&'static str, ReqPlan)> {
    let discard = |limit: Option<usize>| ReadPlan::Sizes {
        sizes: vec![4096],
        limit,
        extra: 0,
        as_reader_calls: 1,
    };
    vec![
        ("read0-respond", ReqPlan { read: ReadPlan::None, finish: Finish::Respond(RespSpec::ok(2)) }),
        ("read0-drop", ReqPlan { read: ReadPlan::None, finish: Finish::Drop }),
        ("read1-respond", ReqPlan { read: discard(Some(1)), finish: Finish::Respond(RespSpec::ok(2)) }),
        ("read1-drop", ReqPlan { read: discard(Some(1)), finish: Finish::Drop }),
        ("readall-respond", ReqPlan { read: discard(None), finish: Finish::Respond(RespSpec::ok(2)) }),
        ("readall-drop", ReqPlan { read: discard(None), finish: Finish::Drop }),
    ]
}

fn mk(class: &str, bytes: Vec<u8>, plan: &ReqPlan, end: Step) -> Case {
    let mut sc = Scenario::one_conn(vec![bytes], AppProgram::uniform(plan.clone()));
    sc.script.push((0, end));
    sc.script.push((0, Step::Settle));
    Case {
        class: class.to_string(),
        sc,
    }
}

fn cases(tier: Tier) -> &'static Vec<Case> {
    static Q: OnceLock<Vec<Case>> = OnceLock::new();
    static T: OnceLock<Vec<Case>> = OnceLock::new();
    let cell = if !full(tier) { &Q } else { &T };
    cell.get_or_init(|| {
        let thorough = full(tier);
        let mut v = Vec::new();
        let hs = handlers();
        // ---- declared Content-Length vs bytes actually sent
        let cls: Vec<(&str, &str)> = vec![
            ("0", "small"), ("1", "small"), ("1024", "small"), ("1025", "small"),
            ("1048576", "2^20"), ("2147483648", "2^31"), ("4294967296", "2^32"),
            ("99999999999999", "10^14"),
            ("9223372036854775807", "2^63-1"), ("9223372036854775808", "2^63"),
            ("18446744073709551615", "2^64-1"), ("18446744073709551616", "2^64"),
            ("1000000000000000000000000000000", "10^30"),
        ];
        for (cl, cname) in &cls {
            let declared: Option<usize> = cl.parse().ok();
            for sent in [0usize, 3, usize::MAX] {
                let n = if sent == usize::MAX {
                    match declared {
                        Some(d) if d <= 1_048_576 => d,
                        _ => continue,
                    }
                } else {
                    sent
                };
                if let Some(d) = declared {
                    if n > d {
                        continue;
                    }
                }
                for (hn, plan) in &hs {
                    if !thorough && n == 1_048_576 && hn.starts_with("read1") {
                        continue;
                    }
                    let mut bytes = format!("POST /cl HTTP/1.1\r\nHost: t\r\nContent-Length: {}\r\n\r\n", cl).into_bytes();
                    bytes.extend_from_slice(&payload(n));
                    let class = if *cname == "small" {
                        "content-length-small".to_string()
                    } else {
                        format!("content-length-declared-{}-{}", cname, if hn.starts_with("readall") { "read" } else { "unread" })
                    };
                    v.push(mk(&class, bytes, plan, Step::CloseWrite));
                }
            }
        }
        // ---- a complete body followed by more bytes already in the socket (pipelined request,
        // surplus bytes) when the handler lets go of the request
        for n in [1usize, 1024, 1025, 2047, 4096, 8191, 8192, 8193, 20000] {
            for expect in [false, true] {
                for is_chunked in [false, true] {
                    for (tn, tail) in [("request", get("/next")), ("surplus", b"surplus-bytes-without-end".to_vec()), ("long-surplus", payload(9000))] {
                        for (_hn, plan) in &hs {
                            let mut bytes = if is_chunked {
                                format!("POST /b HTTP/1.1\r\nHost: t\r\nTransfer-Encoding: chunked\r\n{}\r\n", if expect { "Expect: 100-continue\r\n" } else { "" }).into_bytes()
                            } else {
                                format!("POST /b HTTP/1.1\r\nHost: t\r\nContent-Length: {}\r\n{}\r\n", n, if expect { "Expect: 100-continue\r\n" } else { "" }).into_bytes()
                            };
                            if is_chunked {
                                bytes.extend_from_slice(&chunked(&payload(n), &[n.max(1)], SizeSyntax::Lower));
                            } else {
                                bytes.extend_from_slice(&payload(n));
                            }
                            bytes.extend_from_slice(&tail);
                            v.push(mk(&format!("body-then-{}", tn), bytes, plan, Step::CloseWrite));
                        }
                    }
                }
            }
        }
        // ---- very many messages of one kind on one connection (nothing may accumulate per
        // message: stack frames, queued triggers, buffers)
        {
            let count = if deep(tier) { 50_000 } else { 5_000 };
            let kinds: Vec<(&str, Vec<u8>)> = vec![
                ("many-refused-505", b"GET / HTTP/2.0\r\n\r\n".to_vec()),
                ("many-refused-505", b"POST / HTTP/3.0\r\nContent-Length: 3\r\n\r\nabc".to_vec()),
                ("many-valid", b"GET /m HTTP/1.1\r\nHost: t\r\n\r\n".to_vec()),
                ("many-valid", b"POST /m HTTP/1.1\r\nHost: t\r\nContent-Length: 3\r\n\r\nabc".to_vec()),
                ("many-valid", b"POST /m HTTP/1.1\r\nHost: t\r\nTransfer-Encoding: chunked\r\n\r\n3\r\nabc\r\n0\r\n\r\n".to_vec()),
                ("many-expect-continue", b"POST /m HTTP/1.1\r\nHost: t\r\nExpect: 100-continue\r\nContent-Length: 3\r\n\r\nabc".to_vec()),
            ];
            for (class, one) in kinds {
                let mut bytes = Vec::with_capacity(one.len() * count + 64);
                for _ in 0..count {
                    bytes.extend_from_slice(&one);
                }
                bytes.extend_from_slice(&get("/done"));
                for (hn, plan) in &hs {
                    if class == "many-refused-505" && !hn.starts_with("read0") {
                        continue;
                    }
                    v.push(mk(class, bytes.clone(), plan, Step::CloseWrite));
                }
            }
        }
        // ---- chunk-size lines
        for digits in [1usize, 8, 15, 16, 17, 40] {
            for lead in ["f", "7", "0"] {
                let size_line = format!("{}{}", lead, "f".repeat(digits - 1));
                for tail in ["", "\r", "\r\n", "\r\nab", ";x", ";x\r\n", "\r\nabcdefgh\r\n0\r\n\r\n"] {
                    for (hn, plan) in &hs {
                        if !thorough && (hn.starts_with("read1") || lead == "7") {
                            continue;
                        }
                        let mut bytes = b"POST /ch HTTP/1.1\r\nHost: t\r\nTransfer-Encoding: chunked\r\n\r\n".to_vec();
                        bytes.extend_from_slice(size_line.as_bytes());
                        bytes.extend_from_slice(tail.as_bytes());
                        v.push(mk(&format!("chunk-size-{}-digits", digits), bytes, plan, Step::CloseWrite));
                    }
                }
            }
        }
        // ---- a chunked conversation truncated at every position
        {
            let full = [
                b"POST /t HTTP/1.1\r\nHost: t\r\nTransfer-Encoding: chunked\r\n\r\n".as_ref(),
                &chunked(b"0123456789abcdefXYZ", &[16, 3], SizeSyntax::ExtPair),
                &get("/n"),
            ]
            .concat();
            for k in 0..=full.len() {
                for (hn, plan) in &hs {
                    if hn.starts_with("read1") || (!thorough && k % 2 == 1) {
                        continue;
                    }
                    v.push(mk("truncated-chunked", full[..k].to_vec(), plan, Step::CloseWrite));
                }
            }
        }
        // ---- very many header lines, very long lines
        let many: Vec<usize> = if thorough { vec![1000, 10000] } else { vec![1000] };
        for n in many {
            let mut s = "GET /many HTTP/1.1\r\n".to_string();
            for i in 0..n {
                s.push_str(&format!("X-{}: {}\r\n", i, i));
            }
            s.push_str("\r\n");
            v.push(mk("many-headers", s.clone().into_bytes(), &hs[0].1, Step::CloseWrite));
            // never terminated
            let cut = s.len() - 2;
            v.push(mk("many-headers", s.into_bytes()[..cut].to_vec(), &hs[0].1, Step::CloseWrite));
        }
        let mib = if thorough { 1 << 20 } else { 1 << 17 };
        for (what, bytes) in [
            ("long-request-line", format!("GET /{} HTTP/1.1\r\nHost: t\r\n\r\n", "a".repeat(mib)).into_bytes()),
            ("long-header-value", format!("GET / HTTP/1.1\r\nX-L: {}\r\n\r\n", "v".repeat(mib)).into_bytes()),
            ("long-header-name", format!("GET / HTTP/1.1\r\n{}: v\r\n\r\n", "N".repeat(mib)).into_bytes()),
            ("long-line-never-ends", format!("GET /{}", "a".repeat(mib)).into_bytes()),
            ("long-method", format!("{} / HTTP/1.1\r\n\r\n", "M".repeat(mib)).into_bytes()),
        ] {
            v.push(mk(what, bytes, &hs[0].1, Step::CloseWrite));
        }
        // ---- NUL / control / 8-bit bytes at each head position
        let base = b"POST /p HTTP/1.1\r\nHost: t\r\nContent-Length: 2\r\nX-A: b\r\n\r\nhi".to_vec();
        let odd: Vec<u8> = if thorough { vec![0x00, 0x01, 0x0b, 0x7f, 0x80, 0xff, b'\r', b'\n', b' ', b':'] } else { vec![0x00, 0x80, b'\r', b':'] };
        for pos in 0..base.len() {
            for &b in &odd {
                let mut r = base.clone();
                r[pos] = b;
                v.push(mk("odd-byte-replaced", r, &hs[4].1, Step::CloseWrite));
                if thorough {
                    let mut r = base.clone();
                    r.insert(pos, b);
                    v.push(mk("odd-byte-inserted", r, &hs[4].1, Step::CloseWrite));
                }
            }
        }
        // ---- TE request header values (robustness class of C05), answered with respond
        for te in crate::props::c05::te_alphabet(Tier::Quick).into_iter().flatten() {
            if te.members.is_some() && !thorough {
                continue;
            }
            for (hn, plan) in &hs {
                if hn.ends_with("drop") || hn.starts_with("read1") {
                    continue;
                }
                let bytes = format!("POST /te HTTP/1.1\r\nHost: t\r\nTE: {}\r\nContent-Length: 2\r\n\r\nhi", te.text).into_bytes();
                v.push(mk(if te.members.is_some() { "te-wellformed" } else { "te-malformed-q" }, bytes, plan, Step::CloseWrite));
            }
        }
        // ---- the client is gone before the server looks at the connection
        for (hn, plan) in &hs {
            if hn.starts_with("read1") {
                continue;
            }
            for unnamed in [false, true] {
                let mut sc = Scenario::one_conn(vec![], AppProgram::uniform(plan.clone()));
                sc.conns[0].unnamed_peer = unnamed;
                sc.script = vec![
                    (0, Step::Send(post_cl("/gone", b"abc"))),
                    (0, Step::Reset),
                    (0, Step::Settle),
                ];
                v.push(Case { class: "peer-reset-before-accept".into(), sc });
                let mut sc = Scenario::one_conn(vec![], AppProgram::uniform(plan.clone()));
                sc.conns[0].unnamed_peer = unnamed;
                sc.script = vec![
                    (0, Step::Send(post_cl("/gone", b"abc"))),
                    (0, Step::Close),
                    (0, Step::Settle),
                ];
                v.push(Case { class: "peer-closed-before-accept".into(), sc });
            }
        }
        v
    })
}

thread_local! {
    static OVERHEAD: std::cell::Cell<usize> = std::cell::Cell::new(0);
    static OVERHEAD_SINGLE: std::cell::Cell<usize> = std::cell::Cell::new(0);
}

/// Peak heap of a trivial conversation in this process: the harness's own footprint.
fn overhead() -> usize {
    let o = OVERHEAD.with(|c| c.get());
    if o > 0 {
        return o;
    }
    let sc = Scenario::one_conn(vec![get("/calibrate")], AppProgram::simple());
    let mut worst = 0;
    let mut worst_single = 0;
    for _ in 0..3 {
        let base = alloc::reset();
        let _ = run_scenario(&sc, &RunCfg { lean: true, ..RunCfg::default() });
        let (peak, largest) = alloc::measure(base);
        worst = worst.max(peak);
        worst_single = worst_single.max(largest);
    }
    OVERHEAD.with(|c| c.set(worst.max(1)));
    OVERHEAD_SINGLE.with(|c| c.set(worst_single));
    worst.max(1)
}

/// Largest single allocation of a trivial conversation in this process: per-server and
/// per-connection constants (queues, buffers) that have nothing to do with what a client sends.
fn overhead_single() -> usize {
    let _ = overhead();
    OVERHEAD_SINGLE.with(|c| c.get())
}

const SLACK: usize = 64 * 1024;

fn run_case(c: &Case, acc: &mut Acc, trace: bool) {
    let ov = overhead();
    let received: usize = client_bytes(&c.sc);
    let base = alloc::reset();
    // measured without the runtime's per-step records (decision list, trace), which grow with
    // the length of the execution and belong to the machinery, not to tiny-http
    // the families with tens of thousands of messages need more steps than the engine's default
    // cap (which would end the run early, as a livelock): about 100 per message
    let step_cap = RunCfg::default().step_cap.max(2_000_000 + 8 * received as u64);
    let rc = RunCfg { lean: true, step_cap, ..RunCfg::default() };
    let (obs, res) = run_scenario(&c.sc, &rc);
    let (peak, largest) = alloc::measure(base);
    if res.end == tiny_http::verif_rt::core::End::StepCap {
        // termination is not judged here, but a run cut short covers less than the rule says
        acc.capped = true;
        acc.notes.insert(format!("class {}: an execution was ended by the step cap of {} steps", c.class, step_cap));
    }
    let traced = if trace { Some(run_scenario(&c.sc, &RunCfg { trace: true, ..RunCfg::default() }).1) } else { None };
    acc.evals += 1;
    acc.nontrivial += 1;
    account_run(acc, &res);
    acc.outcomes.insert(obs_hash(&obs, &res));
    let mut fails: Vec<(String, String)> = Vec::new();
    for f in judge_robust(&res, true) {
        match f.clause {
            "panic" => fails.push((format!("panic:{}", c.class), f.desc)),
            "machinery" => acc.machinery_errors.push(f.desc),
            _ => (), // termination is the subject of C10 / C15
        }
    }
    // per-line bookkeeping (a 4-byte header line costs two small heap strings, here and in
    // the observation) makes the constant of proportionality large, but it is a constant
    // the harness keeps what the server answered (5 000 refused 18-byte requests produce
    // 5 000 responses of ~180 bytes): bytes in both directions count as "traffic"
    let answered: usize = obs.conns.iter().map(|c| c.received.len()).sum();
    let received_only = received;
    let received = received + answered;
    let peak_bound = ov + SLACK + 64 * received;
    // (10^4 tiny header lines: the Vec of 48-byte Header structs alone is ~6 x the bytes received)
    // constants of the implementation (e.g. a request queue pre-sized for 1024 entries,
    // legit-changes/H-change2) are calibrated on a trivial conversation and doubled
    let single_bound = SLACK.max(2 * overhead_single()) + 16 * received;
    if !res.panics.is_empty() {
        // the panic is the verdict; capturing its backtrace allocates megabytes by itself
    } else if largest > single_bound {
        fails.push((
            format!("allocation:{}", c.class),
            format!("a single allocation of {} bytes although the client sent only {} bytes and got {} back (bound 64 KiB + 16 x traffic)", largest, received_only, answered),
        ));
    } else if peak > peak_bound {
        fails.push((
            format!("allocation:{}", c.class),
            format!("peak heap {} bytes for {} bytes received and {} answered (harness footprint {}, bound footprint + 64 KiB + 64 x traffic)", peak, received_only, answered, ov),
        ));
    }
    if trace {
        acc.notes.insert(format!(
            "peak heap {} B, largest single allocation {} B, received {} B\n{}\n{}",
            peak, largest, received, traced.map(|t| t.trace.join("\n")).unwrap_or_default(), serde_json::to_string_pretty(&obs_json(&obs, &res)).unwrap()
        ));
    }
    if fails.is_empty() {
        if acc.samples.len() < 3 {
            acc.sample(json!({"class": c.class, "scenario": scenario_json_short(&c.sc), "peak_heap": peak, "largest_allocation": largest, "received": received}));
        }
    }
    for (k, d) in fails {
        acc.violation(&k, d, json!({"class": c.class, "scenario": scenario_json(&c.sc)}));
    }
}

fn client_bytes(sc: &Scenario) -> usize {
    sc.script
        .iter()
        .map(|(_, s)| match s {
            Step::Send(b) | Step::SendIfContinue(b) => b.len(),
            _ => 0,
        })
        .sum()
}

impl Check for C14 {
    fn id(&self) -> &'static str {
        "C14"
    }
    fn level(&self) -> &'static str {
        "fault_enumeration"
    }
    fn n_items(&self, tier: Tier) -> u64 {
        cases(tier).len() as u64
    }
    fn chunk(&self, _tier: Tier) -> u64 {
        8
    }
    fn crash_is_violation(&self) -> bool {
        true
    }
    fn rlimit_as(&self) -> Option<u64> {
        Some(6 << 30)
    }
    fn run_item(&self, idx: u64, tier: Tier, acc: &mut Acc) {
        run_case(&cases(tier)[idx as usize], acc, false);
    }
    fn describe_item(&self, idx: u64, tier: Tier) -> (String, Value) {
        (class_of_item(idx, tier), scenario_of_item(idx, tier).unwrap_or(json!(null)))
    }
    fn rule(&self, tier: Tier) -> String {
        let classes: std::collections::BTreeSet<String> = cases(tier).iter().map(|c| c.class.clone()).collect();
        format!(
            "adversarial conversations in {} classes ({:?}...): Content-Length from 0 to 10^30 x bytes actually sent {{0, 3, all}}; chunk-size lines of 1..40 hex digits truncated at every syntactic position; a chunked conversation cut at every offset; 10^3{} header lines; lines of {} bytes; NUL/control/8-bit/CR/LF/SP/colon at every position of a head; TE request header values of the malformed-q class; client reset/closed before the server looks at the connection (TCP-like and UNIX-like); a complete body of {{1..20000}} bytes (declared or chunked, with or without Expect) followed in the same segment by a pipelined request or surplus bytes; 5 000 (thorough 50 000) messages of one kind on one connection (refused with 505, valid with and without bodies, with Expect: 100-continue) - crossed with handlers read none / 1 byte / all x respond / drop; {} scenarios, each run in a worker process with a 6 GiB address-space cap; oracle: the worker survives, no panic passes through tiny_http code, largest single allocation <= max(64 KiB, 2 x the largest allocation of a trivial conversation) + 16 x traffic, peak heap <= harness footprint + 64 KiB + 64 x traffic (traffic = bytes the client sent + bytes the server answered, which the harness keeps); measured in runs where the runtime records no per-step data",
            classes.len(), classes.iter().take(6).collect::<Vec<_>>(), if full(tier) { "/10^4" } else { "" }, if full(tier) { "1 MiB" } else { "128 KiB" }, cases(tier).len()
        )
    }
    fn assumptions(&self) -> Vec<String> {
        vec![
            "the counting allocator sees the whole worker process; the harness reads bodies through a fixed 4 KiB buffer so that its own allocations stay proportional to the bytes received".into(),
            "termination is not judged here (C10, C15 do)".into(),
        ]
    }
    fn replay(&self, replay: &Value, acc: &mut Acc) {
        if let Some(b) = std::env::var("VERIF_ALLOC_TRACE").ok().and_then(|s| s.parse().ok()) {
            alloc::trace_from(b);
        }
        if replay["kind"].as_str() == Some("crash") {
            // a crash is replayed in a subprocess: this process would die with it
            let item = replay["item"].as_u64().unwrap_or(0);
            let tier = if replay["tier"].as_str() == Some("quick") { Tier::Quick } else { Tier::Thorough };
            let exe = std::env::current_exe().unwrap();
            let out = std::process::Command::new(exe)
                .args(["C14", "--tier", tier.name(), "--run-item", &item.to_string()])
                .output();
            match out {
                Ok(o) if o.status.success() => acc.notes.insert(format!("item {} runs to completion now", item)),
                Ok(o) => {
                    let c = &cases(tier)[item as usize];
                    acc.violation(
                        &format!("process-abort:{}", c.class),
                        format!("the process died ({:?}): {}", o.status, String::from_utf8_lossy(&o.stderr).lines().last().unwrap_or("")),
                        replay.clone(),
                    );
                    true
                }
                Err(e) => {
                    acc.machinery_errors.push(e.to_string());
                    true
                }
            };
            return;
        }
        let c = Case {
            class: replay["class"].as_str().unwrap_or("").to_string(),
            sc: scenario_from_json(&replay["scenario"]),
        };
        run_case(&c, acc, true);
    }
}

pub fn class_of_item(idx: u64, tier: Tier) -> String {
    cases(tier).get(idx as usize).map(|c| c.class.clone()).unwrap_or_default()
}

pub fn scenario_of_item(idx: u64, tier: Tier) -> Option<Value> {
    cases(tier).get(idx as usize).map(|c| scenario_json_short(&c.sc))
}
