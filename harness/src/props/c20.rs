//! C20 — shutdown stops accepting but not answering; idle workers are reclaimed.

use crate::infra::*;
use crate::l2::*;
use crate::runner::*;
use serde_json::{json, Value};
use std::sync::{Arc, Mutex, OnceLock};
use std::time::Duration;
use tiny_http::verif_rt::core::{End, RunResult};
use tiny_http::verif_rt::explore::Mode;
use tiny_http::verif_rt::net::ClientEnd;
use tiny_http::verif_rt::{ctl, thread};
use tiny_http::Response;

pub struct C20;

/// The statement does not say how long the idle period is (5 s today).  Thread reclamation
/// is judged only after an idle time far above any sensible value; virtual time is free.
const LONG_IDLE_MS: u64 = 120_000;

#[derive(Clone, Debug, PartialEq)]
pub struct Burst {
    pub n: usize,
    pub close: bool,
    pub idle_ms: u64,
}

#[derive(Clone, Copy, Debug, PartialEq)]
pub enum DropAt {
    /// histories only: the server is dropped at the very end
    End,
    BeforeAnyConnection,
    /// a client connects at the same moment
    RacingWithConnect,
    /// a request is queued but was never received by the application
    RequestQueued,
    /// a request was handed to the application and is answered after the drop
    RequestHandedOut,
    /// surplus workers are about to retire (4.9999 s idle)
    WorkersRetiring,
    /// four requests on three connections (two of them pipelined on one, one with a body of
    /// 3000 bytes that was not read) are handed out; the server is dropped; 30 virtual seconds
    /// later another thread answers them all, in reverse order, with 70000 bytes each
    SeveralHandedOutLate,
    /// one connection pipelines two requests; the application received the first and left
    /// the second in the queue; the thread that holds the first drops the server and
    /// answers afterwards
    HeldAndSuccessorQueued,
}

#[derive(Clone, Debug, PartialEq)]
pub struct Sc {
    pub bursts: Vec<Burst>,
    pub drop_at: DropAt,
    /// a burst arrives exactly when the surplus workers' idle timeout is due
    pub burst_at_retirement: Option<usize>,
}

impl Sc {
    fn to_json(&self) -> Value {
        json!({"bursts": self.bursts.iter().map(|b| json!([b.n, b.close, b.idle_ms])).collect::<Vec<_>>(),
               "drop_at": format!("{:?}", self.drop_at), "burst_at_retirement": self.burst_at_retirement})
    }
    fn from_json(v: &Value) -> Sc {
        Sc {
            bursts: v["bursts"].as_array().map(|a| a.iter().map(|b| Burst { n: b[0].as_u64().unwrap_or(1) as usize, close: b[1].as_bool().unwrap_or(true), idle_ms: b[2].as_u64().unwrap_or(0) }).collect()).unwrap_or_default(),
            drop_at: match v["drop_at"].as_str() {
                Some("BeforeAnyConnection") => DropAt::BeforeAnyConnection,
                Some("RacingWithConnect") => DropAt::RacingWithConnect,
                Some("RequestQueued") => DropAt::RequestQueued,
                Some("RequestHandedOut") => DropAt::RequestHandedOut,
                Some("WorkersRetiring") => DropAt::WorkersRetiring,
                Some("SeveralHandedOutLate") => DropAt::SeveralHandedOutLate,
                Some("HeldAndSuccessorQueued") => DropAt::HeldAndSuccessorQueued,
                _ => DropAt::End,
            },
            burst_at_retirement: v["burst_at_retirement"].as_u64().map(|x| x as usize),
        }
    }
}

#[derive(Clone, Debug, Default)]
pub struct O {
    pub baseline: usize,
    /// per burst: (connections answered, connections in the burst)
    pub served: Vec<(usize, usize)>,
    /// live threads after each idle period longer than 5 s: (threads, open connections)
    pub after_idle: Vec<(usize, usize, u64)>,
    pub refused_after_drop: Option<bool>,
    /// a connection attempt one second after the drop, while a handed-out request is still unanswered
    pub refused_while_held: Option<bool>,
    pub handed_out_answered: Option<bool>,
    pub racing_client: Option<String>,
    pub threads_at_end: Option<usize>,
    /// trickle scenario: (live threads when the trickle ends, idle period measured, gap used)
    pub after_trickle: Option<(usize, u64, u64)>,
    pub done: bool,
}

fn answered(c: &ClientEnd, acc: &mut Vec<u8>) -> bool {
    let d = c.drain();
    acc.extend(d.segments.concat());
    let st = crate::httpparse::parse_stream(acc, &[false]);
    st.error.is_none() && !st.finals().is_empty() && st.finals()[0].status == 200
}

/// The trickle scenario (encoded as a history whose first burst has n == 0; its `idle_ms` is
/// the size of the real burst): light traffic must not keep surplus workers alive.
///   1. a burst is served and closed; the idle period P of THIS implementation is measured by
///      watching (passively) when the thread count is back at its baseline;
///   2. the same burst again; then 40 single connections, one every P/4: with W >= 8 workers
///      taking turns each of them is used at most every 2P, so the surplus ones have been idle
///      for longer than P and must be gone when the trickle ends.
fn trickle_body(n: usize, srv: Srv, obs: Arc<Mutex<O>>) {
    let addr = srv.addr.clone();
    let shared: SharedObs = Arc::new(Mutex::new(Obs::default()));
    let app = {
        let (s, o) = (srv.server.clone(), shared.clone());
        thread::spawn_named(Some("app".into()), move || app_thread(s, AppProgram::simple(), o))
    };
    ctl::settle();
    let baseline = ctl::live_threads();
    obs.lock().unwrap().baseline = baseline;
    let mut next = 0usize;
    let mut burst = |k: usize, next: &mut usize| -> usize {
        let mut cs = Vec::new();
        for _ in 0..k {
            let c = connect(&addr, *next, &ConnSpec::default()).expect("connect");
            let _ = c.send(format!("GET /t{} HTTP/1.1\r\nHost: t\r\n\r\n", *next).as_bytes());
            *next += 1;
            cs.push(c);
        }
        ctl::settle();
        let mut ok = 0;
        for c in cs.iter_mut() {
            let mut buf = Vec::new();
            if answered(c, &mut buf) {
                ok += 1;
            }
            c.close();
        }
        ctl::settle();
        ok
    };
    let ok = burst(n, &mut next);
    obs.lock().unwrap().served.push((ok, n));
    // 1. the idle period of this implementation
    let mut p_ms = None;
    for step in 1..=400u64 {
        ctl::sleep(Duration::from_millis(500));
        ctl::settle();
        if ctl::live_threads() <= baseline {
            p_ms = Some(step * 500);
            break;
        }
    }
    match p_ms {
        None => {
            obs.lock().unwrap().after_idle.push((ctl::live_threads(), 0, 200_000));
        }
        Some(p) => {
            // 2. the burst again, then the trickle
            let ok = burst(n, &mut next);
            obs.lock().unwrap().served.push((ok, n));
            let gap = (p / 4).max(100);
            let mut served = 0;
            for _ in 0..40 {
                served += burst(1, &mut next);
                ctl::sleep(Duration::from_millis(gap));
                ctl::settle();
            }
            obs.lock().unwrap().served.push((served, 40));
            let live = ctl::live_threads();
            obs.lock().unwrap().after_trickle = Some((live, p, gap));
        }
    }
    srv.server.unblock();
    let _ = app.join();
    ctl::settle();
    drop(srv);
    ctl::settle();
    finish(&addr, &obs);
}

pub fn body(sc: Sc, obs: Arc<Mutex<O>>) {
    ctl::window(false);
    ctl::spurious(crate::l2::spurious_now()); // waits may return unnotified (std permits it): a 1-cost deviation
    let srv = start_server();
    let addr = srv.addr.clone();
    ctl::settle();
    if sc.bursts.first().map_or(false, |b| b.n == 0) {
        trickle_body(sc.bursts[0].idle_ms as usize, srv, obs);
        return;
    }
    if sc.drop_at == DropAt::BeforeAnyConnection {
        ctl::window(true);
        drop(srv);
        ctl::settle();
        ctl::window(false);
        finish(&addr, &obs);
        return;
    }
    let receives = true;
    let shared: SharedObs = Arc::new(Mutex::new(Obs::default()));
    let mut app = {
        let (s, o) = (srv.server.clone(), shared.clone());
        Some(thread::spawn_named(Some("app".into()), move || app_thread(s, AppProgram::simple(), o)))
    };
    ctl::settle();
    obs.lock().unwrap().baseline = ctl::live_threads();
    let mut open: Vec<ClientEnd> = Vec::new();
    let mut next_conn = 0usize;
    for (bi, b) in sc.bursts.iter().enumerate() {
        let racing = sc.burst_at_retirement == Some(bi);
        if racing {
            ctl::window(true);
        }
        let mut cs = Vec::new();
        for _ in 0..b.n {
            let c = connect(&addr, next_conn, &ConnSpec::default()).expect("connect");
            let _ = c.send(format!("GET /b{}c{} HTTP/1.1\r\nHost: t\r\n\r\n", bi, next_conn).as_bytes());
            next_conn += 1;
            cs.push(c);
        }
        ctl::settle();
        if racing {
            ctl::window(false);
        }
        if receives {
            let mut bufs: Vec<Vec<u8>> = vec![Vec::new(); cs.len()];
            let count = |bufs: &mut Vec<Vec<u8>>| {
                let mut n = 0;
                for (c, b) in cs.iter().zip(bufs.iter_mut()) {
                    if answered(c, b) {
                        n += 1;
                    }
                }
                n
            };
            let mut ok = count(&mut bufs);
            if ok < b.n {
                // no statement bounds how soon a burst is served: an implementation may pace
                // its accept loop (legit-changes/H-change3 sleeps 1 ms per accept above 256
                // threads).  Grace: 3 virtual seconds, then look again.
                ctl::sleep(Duration::from_millis(3000));
                ctl::settle();
                ok = count(&mut bufs);
            }
            obs.lock().unwrap().served.push((ok, b.n));
        }
        if b.close {
            for c in cs.iter_mut() {
                c.close();
            }
            ctl::settle();
        } else {
            open.extend(cs);
        }
        if b.idle_ms > 0 {
            ctl::sleep(Duration::from_millis(b.idle_ms));
            ctl::settle();
            if b.idle_ms >= LONG_IDLE_MS {
                let live = ctl::live_threads();
                obs.lock().unwrap().after_idle.push((live, open.len(), b.idle_ms));
            }
        }
    }
    match sc.drop_at {
        DropAt::End | DropAt::WorkersRetiring => {
            if sc.drop_at == DropAt::WorkersRetiring {
                ctl::sleep(Duration::from_nanos(4_999_900_000));
            }
            srv.server.unblock();
            if let Some(a) = app.take() {
                let _ = a.join();
            }
            ctl::window(true);
            drop(srv);
            ctl::settle();
            ctl::window(false);
        }
        DropAt::RacingWithConnect => {
            srv.server.unblock();
            if let Some(a) = app.take() {
                let _ = a.join();
            }
            let (a2, o2) = (addr.clone(), obs.clone());
            ctl::window(true);
            let cl = thread::spawn_named(Some("late-client".into()), move || {
                let r = match connect(&a2, 90, &ConnSpec::default()) {
                    Err(e) => format!("refused:{:?}", e.kind()),
                    Ok(c) => {
                        let _ = c.send(b"GET /late HTTP/1.1\r\nHost: t\r\n\r\n");
                        ctl::settle();
                        let d = c.drain();
                        format!("connected: {} bytes, eof={}, reset={}", d.segments.concat().len(), d.eof, d.reset)
                    }
                };
                o2.lock().unwrap().racing_client = Some(r);
            });
            drop(srv);
            let _ = cl.join();
            ctl::settle();
            ctl::window(false);
        }
        DropAt::RequestQueued => {
            // the application stops receiving
            srv.server.unblock();
            if let Some(a) = app.take() {
                let _ = a.join();
            }
            let c = connect(&addr, 80, &ConnSpec::default()).expect("connect");
            let _ = c.send(b"GET /queued HTTP/1.1\r\nHost: t\r\n\r\n");
            ctl::settle();
            ctl::window(true);
            drop(srv);
            ctl::settle();
            ctl::window(false);
            open.push(c);
        }
        DropAt::RequestHandedOut => {
            srv.server.unblock();
            if let Some(a) = app.take() {
                let _ = a.join();
            }
            let c = connect(&addr, 80, &ConnSpec::default()).expect("connect");
            let _ = c.send(b"GET /handed HTTP/1.1\r\nHost: t\r\n\r\n");
            let rq = srv.server.recv().expect("recv");
            ctl::settle();
            ctl::window(true);
            let responder = thread::spawn_named(Some("responder".into()), move || {
                let _ = rq.respond(Response::from_string("after the drop"));
            });
            drop(srv);
            let _ = responder.join();
            ctl::settle();
            ctl::window(false);
            let mut buf = Vec::new();
            let ok = answered(&c, &mut buf);
            obs.lock().unwrap().handed_out_answered = Some(ok && buf.windows(14).any(|w| w == b"after the drop"));
            open.push(c);
        }
        DropAt::SeveralHandedOutLate => {
            srv.server.unblock();
            if let Some(a) = app.take() {
                let _ = a.join();
            }
            let c1 = connect(&addr, 80, &ConnSpec::default()).expect("connect");
            let c2 = connect(&addr, 81, &ConnSpec::default()).expect("connect");
            let c3 = connect(&addr, 82, &ConnSpec::default()).expect("connect");
            let _ = c1.send(b"GET /h1 HTTP/1.1\r\nHost: t\r\n\r\nGET /h2 HTTP/1.1\r\nHost: t\r\n\r\n");
            let _ = c2.send(format!("POST /h3 HTTP/1.1\r\nHost: t\r\nContent-Length: 3000\r\n\r\n{}", "b".repeat(3000)).as_bytes());
            let _ = c3.send(b"GET /h4 HTTP/1.0\r\nConnection: keep-alive\r\n\r\n");
            let mut rqs = Vec::new();
            for _ in 0..4 {
                rqs.push(srv.server.recv().expect("recv"));
            }
            ctl::settle();
            ctl::window(true);
            let responder = thread::spawn_named(Some("responder".into()), move || {
                ctl::sleep(Duration::from_secs(30));
                // connections in reverse order; the two of one connection in wire order (one
                // thread cannot answer the second before the first: it would wait for its turn)
                rqs.sort_by_key(|r| match r.url() {
                    "/h4" => 3,
                    "/h3" => 2,
                    "/h1" => 1,
                    _ => 0,
                });
                while let Some(rq) = rqs.pop() {
                    let body = format!("after the drop {}", rq.url()).repeat(4000);
                    let _ = rq.respond(Response::from_string(body));
                }
            });
            drop(srv);
            ctl::settle();
            ctl::window(false);
            let _ = responder.join();
            ctl::settle();
            let mut all = true;
            for (c, urls) in [(&c1, vec!["/h1", "/h2"]), (&c2, vec!["/h3"]), (&c3, vec!["/h4"])] {
                let d = c.drain();
                let st = crate::httpparse::parse_stream(&d.segments.concat(), &vec![false; urls.len()]);
                let fin = st.finals();
                if st.error.is_some() || fin.len() != urls.len() {
                    all = false;
                } else {
                    for (m, u) in fin.iter().zip(urls.iter()) {
                        if m.status != 200 || m.body != format!("after the drop {}", u).repeat(4000).into_bytes() {
                            all = false;
                        }
                    }
                }
            }
            obs.lock().unwrap().handed_out_answered = Some(all);
            open.push(c1);
            open.push(c2);
            open.push(c3);
        }
        DropAt::HeldAndSuccessorQueued => {
            srv.server.unblock();
            if let Some(a) = app.take() {
                let _ = a.join();
            }
            let c = connect(&addr, 80, &ConnSpec::default()).expect("connect");
            let _ = c.send(b"GET /held HTTP/1.1\r\nHost: t\r\n\r\nGET /queued HTTP/1.1\r\nHost: t\r\n\r\n");
            let rq = srv.server.recv().expect("recv");
            ctl::settle();
            ctl::window(true);
            // this very thread holds the request, drops the server and answers afterwards -
            // one virtual second afterwards: new connections must be refused by then although
            // the request is still held
            drop(srv);
            ctl::settle();
            if addr.is_listening() {
                ctl::sleep(Duration::from_millis(1000));
                ctl::settle();
            }
            let refused = connect(&addr, 96, &ConnSpec::default()).is_err();
            obs.lock().unwrap().refused_while_held = Some(refused);
            let _ = rq.respond(Response::from_string("after the drop"));
            ctl::settle();
            ctl::window(false);
            let mut buf = Vec::new();
            let ok = answered(&c, &mut buf);
            obs.lock().unwrap().handed_out_answered = Some(ok && buf.windows(14).any(|w| w == b"after the drop"));
            open.push(c);
        }
        DropAt::BeforeAnyConnection => unreachable!(),
    }
    for c in open.iter_mut() {
        c.close();
    }
    ctl::settle();
    finish(&addr, &obs);
}

fn finish(addr: &tiny_http::verif_rt::net::MemAddr, obs: &Arc<Mutex<O>>) {
    if addr.is_listening() {
        // 'within a short bounded time': one virtual second, watched passively (no connection
        // attempt, which could itself be what wakes the accept thread)
        ctl::sleep(Duration::from_millis(1000));
        ctl::settle();
    }
    let refused = connect(addr, 97, &ConnSpec::default()).is_err();
    obs.lock().unwrap().refused_after_drop = Some(refused);
    ctl::sleep(Duration::from_millis(11_000));
    ctl::settle();
    let mut o = obs.lock().unwrap();
    o.threads_at_end = Some(ctl::live_threads());
    o.done = true;
}

pub fn judge(sc: &Sc, o: &O, res: &RunResult) -> Vec<(String, String)> {
    let mut f = Vec::new();
    for p in &res.panics {
        f.push(("panic".to_string(), format!("{} at {}", p.message, p.location)));
    }
    if res.end == End::Diverged {
        return vec![("machinery".into(), format!("{:?}", res.divergence))];
    }
    if !o.done {
        f.push(("hang".into(), format!("the history never finishes: {:?} {:?}", res.end, res.blocked)));
        return f;
    }
    if o.refused_after_drop != Some(true) {
        f.push((
            format!("still-accepting:{:?}", sc.drop_at).to_lowercase(),
            "after the server was dropped (and everything that can run has run) a new connection attempt is still accepted: the listening socket was not released".into(),
        ));
    }
    if o.refused_while_held == Some(false) {
        f.push((
            "still-accepting:while-a-request-is-held".into(),
            "one second after the server was dropped a new connection attempt is still accepted; the application holds an unanswered request whose pipelined successor was still queued at the drop (refusal may not wait for the application)".into(),
        ));
    }
    if o.handed_out_answered == Some(false) {
        f.push(("handed-out-request-lost".into(), "a request handed out before the drop was answered afterwards, but the answer did not reach the client".into()));
    }
    for (i, (ok, n)) in o.served.iter().enumerate() {
        if ok != n {
            let key = if sc.burst_at_retirement == Some(i) { "dispatch-vs-retirement" } else { "burst-not-served" };
            f.push((key.into(), format!("burst {}: {} of {} connections were answered", i, ok, n)));
        }
    }
    if let Some((live, p, gap)) = o.after_trickle {
        if live > o.baseline + 1 {
            f.push((
                "threads-kept-by-light-traffic".into(),
                format!(
                    "{} threads alive (baseline {}) after 40 single connections, one every {} ms: idle workers leave this implementation after {} ms (measured), each worker was needed at most every {} ms, yet the surplus workers of the burst are still there",
                    live, o.baseline, gap, p, 2 * p
                ),
            ));
        }
    }
    for (live, open, idle) in &o.after_idle {
        if *live > o.baseline + *open {
            f.push((
                "threads-not-reclaimed".into(),
                format!("{} threads alive after {} ms of idleness with {} open connections; baseline was {} (surplus workers were not reclaimed)", live, idle, open, o.baseline),
            ));
        }
    }
    f
}

fn items(tier: Tier) -> &'static Vec<(Sc, u32)> {
    static Q: OnceLock<Vec<(Sc, u32)>> = OnceLock::new();
    static T: OnceLock<Vec<(Sc, u32)>> = OnceLock::new();
    let cell = if tier == Tier::Quick { &Q } else { &T };
    cell.get_or_init(|| {
        let thorough = tier == Tier::Thorough;
        let mut v = Vec::new();
        let ns: Vec<usize> = if thorough { vec![1, 4, 5, 8] } else { vec![1, 5, 8] };
        let idles: Vec<u64> = if thorough { vec![0, 4900, 5100, 11000, LONG_IDLE_MS] } else { vec![0, 4900, 5100, LONG_IDLE_MS] };
        // histories at the default schedule
        let mut singles = Vec::new();
        for &n in &ns {
            for close in [true, false] {
                for &idle in &idles {
                    singles.push(Burst { n, close, idle_ms: idle });
                }
            }
        }
        for a in &singles {
            v.push((Sc { bursts: vec![a.clone()], drop_at: DropAt::End, burst_at_retirement: None }, 0));
        }
        for a in &singles {
            for b in &singles {
                if !thorough && (a.n == 1 || b.n == 1) {
                    continue;
                }
                v.push((Sc { bursts: vec![a.clone(), b.clone()], drop_at: DropAt::End, burst_at_retirement: None }, 0));
            }
        }
        if !thorough {
            // three bursts in a row, reclamation judged after each long idle period
            let few: Vec<Burst> = singles.iter().filter(|b| b.n >= 5 && (b.idle_ms == 0 || b.idle_ms == LONG_IDLE_MS)).cloned().collect();
            for a in &few {
                for b in &few {
                    for c in &few {
                        if a.idle_ms == 0 && b.idle_ms == 0 && c.idle_ms == 0 {
                            continue;
                        }
                        v.push((Sc { bursts: vec![a.clone(), b.clone(), c.clone()], drop_at: DropAt::End, burst_at_retirement: None }, 0));
                    }
                }
            }
        }
        if thorough {
            let few: Vec<Burst> = singles.iter().filter(|b| b.n >= 5 && b.idle_ms != 4900 && b.idle_ms != 11000).cloned().collect();
            for a in &few {
                for b in &few {
                    for c in &few {
                        v.push((Sc { bursts: vec![a.clone(), b.clone(), c.clone()], drop_at: DropAt::End, burst_at_retirement: None }, 0));
                    }
                }
            }
        }
        // light traffic after a burst must not keep the surplus workers (default schedule)
        for n in if thorough { vec![8usize, 12, 32] } else { vec![8usize, 12] } {
            v.push((Sc { bursts: vec![Burst { n: 0, close: true, idle_ms: n as u64 }], drop_at: DropAt::End, burst_at_retirement: None }, 0));
        }
        // magnitudes (default schedule): a burst far above any plausible ceiling, closed, then a
        // long idle period (all surplus workers reclaimed), then a second one
        for n in if thorough { vec![300usize, 1100, 2100] } else { vec![300usize, 1100] } {
            v.push((Sc { bursts: vec![Burst { n, close: true, idle_ms: LONG_IDLE_MS }], drop_at: DropAt::End, burst_at_retirement: None }, 0));
            v.push((Sc { bursts: vec![Burst { n, close: true, idle_ms: LONG_IDLE_MS }, Burst { n: 8, close: true, idle_ms: LONG_IDLE_MS }], drop_at: DropAt::End, burst_at_retirement: None }, 0));
            v.push((Sc { bursts: vec![Burst { n, close: false, idle_ms: 5100 }, Burst { n: 8, close: true, idle_ms: LONG_IDLE_MS }], drop_at: DropAt::End, burst_at_retirement: None }, 0));
        }
        // server drop at every position, schedules explored around the drop
        for drop_at in [DropAt::BeforeAnyConnection, DropAt::RacingWithConnect, DropAt::RequestQueued, DropAt::RequestHandedOut, DropAt::SeveralHandedOutLate, DropAt::HeldAndSuccessorQueued, DropAt::WorkersRetiring, DropAt::End] {
            for pre in [vec![], vec![Burst { n: 1, close: true, idle_ms: 0 }], vec![Burst { n: 6, close: true, idle_ms: 0 }], vec![Burst { n: 2, close: false, idle_ms: 0 }]] {
                if drop_at == DropAt::WorkersRetiring && pre.iter().all(|x| x.n < 5) {
                    continue;
                }
                // two deviations only where the history before the drop is short
                let small = pre.iter().map(|x| x.n).sum::<usize>() <= 1;
                let b = if thorough { if small { 2 } else { 1 } } else if small { 1 } else { 0 };
                v.push((Sc { bursts: pre, drop_at, burst_at_retirement: None }, b));
            }
        }
        // a dispatch racing with the retirement of surplus workers
        for n2 in [1usize, 2, 5] {
            for first in [5usize, 6, 8] {
                // ... and afterwards everything is closed and left idle for long: the race must not
                // have broken the bookkeeping that lets surplus workers retire
                v.push((
                    Sc {
                        bursts: vec![Burst { n: first, close: true, idle_ms: 4999 }, Burst { n: n2, close: true, idle_ms: LONG_IDLE_MS }],
                        drop_at: DropAt::End,
                        burst_at_retirement: Some(1),
                    },
                    if thorough && first <= 5 && n2 <= 2 { 2 } else { 1 },
                ));
                v.push((
                    Sc {
                        bursts: vec![Burst { n: first, close: true, idle_ms: 4999 }, Burst { n: n2, close: false, idle_ms: 0 }],
                        drop_at: DropAt::End,
                        burst_at_retirement: Some(1),
                    },
                    if thorough && first <= 5 && n2 <= 2 { 2 } else { 1 },
                ));
            }
        }
        v
    })
}

impl Check for C20 {
    fn id(&self) -> &'static str {
        "C20"
    }
    fn level(&self) -> &'static str {
        "model_checking"
    }
    fn n_items(&self, tier: Tier) -> u64 {
        items(tier).len() as u64
    }
    fn chunk(&self, _tier: Tier) -> u64 {
        4
    }
    fn run_item(&self, idx: u64, tier: Tier, acc: &mut Acc) {
        let (sc, bound) = &items(tier)[idx as usize];
        let cfg = L2Cfg {
            mode: Mode::Strict,
            bound: Some(*bound),
            max_execs: 600_000,
            wall: Duration::from_secs(if tier == Tier::Thorough { 300 } else { 30 }),
            spurious_upto: Some(if tier == Tier::Thorough { (*bound).saturating_sub(1) } else { (*bound) }),
        };
        let (s2, s3) = (sc.clone(), sc.clone());
        let found = explore_scenario::<O, _, _>(&cfg, acc, &sc.to_json(), move |o| body(s2.clone(), o), |o, r| judge(&s3, o, r));
        acc.nontrivial += 1;
        if !found && *bound > 0 {
            acc.sample(json!({"scenario": sc.to_json(), "mode": "strict", "bound": bound}));
        }
    }
    fn rule(&self, tier: Tier) -> String {
        format!(
            "histories of 1..{} bursts (3 in both tiers) of N in {:?} connections (each answered; closed or left open) followed by {:?} ms of virtual idleness, at the default schedule; a burst of 8 / 12 (thorough 32) whose idle period P is measured passively, then the same burst followed by 40 single connections one every P/4 (each worker needed at most every 2P: the surplus ones must be gone when the trickle ends); bursts of 300 / 1100 (thorough 2100) connections followed by the long idle period and a further burst; server drop {{before any connection, racing with a connecting client, with a request queued but never received, with a request handed out and answered afterwards, with four requests handed out on three connections (two pipelined, one with an unread 3000-byte body, one HTTP/1.0 keep-alive) and answered 30 s after the drop, connections in reverse order, with 60000-byte bodies, with the first of two pipelined requests held by the very thread that drops the server and answers afterwards while the second is still queued (a connection attempt one second after the drop, before the answer, must be refused), while surplus workers are retiring, at the end}} after histories {{none, 1 closed, 6 closed, 2 open}} with all schedules of at most {} deviations (strict; one less after the longer histories) around the drop; a burst of 1/2/5 arriving exactly when the surplus workers of a burst of 5/6/8 reach their 5 s idle timeout (left open: all must be answered; or closed and followed by 120 s of idleness: threads must be reclaimed), same bound; {} scenarios; oracle: after the drop and quiescence a new connect is refused in every schedule, a handed-out request is still answered and its bytes reach the client, every burst is answered completely, threads alive after 120 s of idleness (far above any sensible idle period; the statement names none) <= baseline + open connections; non-trivial = all",
            if tier == Tier::Thorough { 3 } else { 2 }, if tier == Tier::Thorough { vec![1, 4, 5, 8] } else { vec![1, 5, 8] },
            if tier == Tier::Thorough { vec![0, 4900, 5100, 11000, LONG_IDLE_MS] } else { vec![0, 4900, 5100, LONG_IDLE_MS] }, if tier == Tier::Thorough { 2 } else { 1 }, items(tier).len()
        )
    }
    fn assumptions(&self) -> Vec<String> {
        vec![
            "'within a short bounded time' is decided as 'at quiescence, or after one virtual second during which nobody connects'; a burst that is not served completely at quiescence is looked at again after 3 virtual seconds (no statement bounds how soon); removal of a UNIX socket path and the wall-clock bound are bound by the conformance run over kernel sockets".into(),
            "minimum workers that stay parked after the server has been dropped are outside the statement (only surplus workers are required to exit) and are not judged".into(),
            "a spurious return from a condition-variable wait (std permits it) is offered as one more 1-cost deviation at every decision inside the explored window".into(),
        ]
    }
    fn replay(&self, replay: &Value, acc: &mut Acc) {
        let sc = Sc::from_json(&replay["scenario"]);
        let s3 = sc.clone();
        replay_schedule::<O, _, _>(acc, replay, move |o| body(sc.clone(), o), |o, r| judge(&s3, o, r));
    }
}
