//! C09 — message boundaries hold whether or not the application consumes the body.

use crate::gen::*;
use crate::infra::*;
use crate::judge::*;
use crate::l1::*;
use crate::runner::*;
use serde_json::Value;
use std::sync::OnceLock;

pub struct C09;

/// This check is cheap: the quick tier already runs the full alphabet (what used to be the
/// thorough tier); `deep` marks the extras that only the thorough tier adds.
#[allow(dead_code)]
fn full(_t: Tier) -> bool {
    true
}
#[allow(dead_code)]
fn deep(t: Tier) -> bool {
    t == Tier::Thorough
}

#[derive(Clone, Debug)]
struct Case {
    label: String,
    bytes: Vec<u8>,
    plan: ReqPlan,
    chunked: bool,
    consumed_all: bool,
}

fn framings(tier: Tier) -> Vec<(String, Vec<u8>, usize, bool)> {
    // (label, message, body length, chunked)
    let thorough = full(tier);
    let mut v = Vec::new();
    let cls: Vec<usize> = if thorough {
        vec![1, 1023, 1024, 1025, 3000, 70000]
    } else {
        vec![1, 1024, 1025, 3000]
    };
    for n in cls {
        v.push((format!("cl{}", n), post_cl("/b", &payload(n)), n, false));
    }
    // the same with Expect: 100-continue, the client sending the body without waiting
    for n in if thorough { vec![1usize, 1024, 1025, 3000] } else { vec![5usize, 1025] } {
        let mut m = format!("POST /b HTTP/1.1\r\nHost: t\r\nExpect: 100-continue\r\nContent-Length: {}\r\n\r\n", n).into_bytes();
        m.extend_from_slice(&payload(n));
        v.push((format!("cl{}-expect", n), m, n, false));
    }
    {
        let n = 1025;
        let mut m = b"POST /b HTTP/1.1\r\nHost: t\r\nExpect: 100-continue\r\nTransfer-Encoding: chunked\r\n\r\n".to_vec();
        m.extend_from_slice(&chunked(&payload(n), &[1000, 25], SizeSyntax::Lower));
        v.push((format!("chunked{}-expect", n), m, n, true));
    }
    let chs: Vec<usize> = if thorough { vec![10, 1024, 1025, 3000, 5120] } else { vec![10, 1025] };
    for n in chs {
        for (cn, sizes) in chunkings(n, thorough) {
            if cn == "cutlast" && !thorough {
                continue;
            }
            v.push((format!("chunked{}-{}", n, cn), post_chunked("/b", &payload(n), &sizes), n, true));
        }
    }
    v
}

fn followers(tier: Tier) -> Vec<(&'static str, Vec<u8>)> {
    let mut v = vec![("get", get("/n1"))];
    let mut two = get("/n1");
    two.extend_from_slice(&post_cl("/n2", b"tail-body"));
    v.push(("get+post", two));
    if full(tier) {
        let mut c = post_chunked("/n1", b"follow", &[2, 4]);
        c.extend_from_slice(&get("/n2"));
        v.push(("chunked+get", c));
    }
    v
}

fn cases(tier: Tier) -> &'static Vec<Case> {
    static Q: OnceLock<Vec<Case>> = OnceLock::new();
    static T: OnceLock<Vec<Case>> = OnceLock::new();
    let cell = if !full(tier) { &Q } else { &T };
    cell.get_or_init(|| {
        let mut v = Vec::new();
        let read_sizes: Vec<usize> = if full(tier) { vec![1, 7, 4096] } else { vec![7, 4096] };
        for (fl, msg, n, chunked) in framings(tier) {
            // consumption prefixes: 0, 1, n/2, n-1, n bytes (without seeing EOF), to EOF
            let mut prefixes: Vec<(String, ReadPlan, bool)> = vec![("read0".into(), ReadPlan::None, false)];
            for &rs in &read_sizes {
                for k in [1usize, n / 2, n.saturating_sub(1), n] {
                    if k == 0 || k > n {
                        continue;
                    }
                    prefixes.push((format!("read{}by{}", k, rs), ReadPlan::part(rs, k), false));
                }
                prefixes.push((format!("eof-by{}", rs), ReadPlan::all(rs), true));
                // all the data, end-of-stream not observed, then a read with an empty buffer
                prefixes.push((format!("read{}by{}-then-zero-length-read", n, rs), ReadPlan::ThenZeroLengthRead { size: rs, limit: n }, false));
                if n > 2 {
                    prefixes.push((format!("read{}by{}-then-zero-length-read", n / 2, rs), ReadPlan::ThenZeroLengthRead { size: rs, limit: n / 2 }, false));
                }
            }
            // a read with an empty buffer in the middle (it says nothing about the end of the body),
            // then exactly the rest of the data / of the first half, end-of-stream never observed
            if n >= 2 {
                prefixes.push((format!("read2-empty-read{}-no-eof", n - 2), ReadPlan::OtherMethod { method: 1000 + n }, false));
                prefixes.push((format!("read2-empty-read{}-no-eof", n / 2), ReadPlan::OtherMethod { method: 1000 + n / 2 + 2 }, false));
            }
            prefixes.push(("empty-read-only".to_string(), ReadPlan::OtherMethod { method: 1000 }, false));
            prefixes.dedup_by(|a, b| a.0 == b.0);
            for (pl, rp, all) in prefixes {
                for (finl, fin) in [
                    ("respond", Finish::Respond(RespSpec::ok(4))),
                    ("drop", Finish::Drop),
                    ("writer", Finish::Writer { parts: raw_response_parts(0, 5, 2), flush: true }),
                    // dropped while the handler thread unwinds from a panic
                    ("panic", Finish::Panic),
                ] {
                    for (fol, fb) in followers(tier) {
                        let mut bytes = msg.clone();
                        bytes.extend_from_slice(&fb);
                        v.push(Case {
                            label: format!("{}/{}/{}/then-{}", fl, pl, finl, fol),
                            bytes,
                            plan: ReqPlan { read: rp.clone(), finish: fin.clone() },
                            chunked,
                            consumed_all: all,
                        });
                    }
                }
            }
        }
        // unread bodies after a long history of plain exchanges on the connection
        for h in history_lengths(deep(tier)) {
            let mut fr: Vec<(String, Vec<u8>, bool)> = vec![
                ("cl1025".into(), post_cl("/b", &payload(1025)), false),
                ("cl5".into(), post_cl("/b", &payload(5)), false),
                ("chunked1025".into(), post_chunked("/b", &payload(1025), &[1000, 25]), true),
            ];
            let mut m = b"POST /b HTTP/1.1\r\nHost: t\r\nExpect: 100-continue\r\nContent-Length: 5\r\n\r\n".to_vec();
            m.extend_from_slice(&payload(5));
            fr.push(("cl5-expect".into(), m, false));
            for (fl, msg, chunked) in fr {
                for (pl, rp) in [("read0".to_string(), ReadPlan::None), ("read1by7".to_string(), ReadPlan::part(7, 1))] {
                    for (finl, fin) in [("respond", Finish::Respond(RespSpec::ok(4))), ("drop", Finish::Drop)] {
                        let mut bytes = history(h);
                        bytes.extend_from_slice(&msg);
                        bytes.extend_from_slice(&get("/n1"));
                        v.push(Case { label: format!("history{}/{}/{}/{}/then-get", h, fl, pl, finl), bytes, plan: ReqPlan { read: rp.clone(), finish: fin.clone() }, chunked, consumed_all: false });
                    }
                }
            }
        }
        // bodies far larger than any buffer or any bound on discarding work: the unread rest
        // (megabytes, really sent) must still be skipped exactly
        let mib = 1usize << 20;
        let mut big: Vec<(String, Vec<u8>, usize, bool)> = vec![
            (format!("cl{}", mib + 100), post_cl("/big", &payload(mib + 100)), mib + 100, false),
            (format!("cl{}", 2 * mib + 1), post_cl("/big", &payload(2 * mib + 1)), 2 * mib + 1, false),
            (format!("chunked{}-by65536", mib + mib / 2), post_chunked("/big", &payload(mib + mib / 2), &vec![65536; 24]), mib + mib / 2, true),
        ];
        if deep(tier) {
            big.push((format!("cl{}", 5 * mib), post_cl("/big", &payload(5 * mib)), 5 * mib, false));
            big.push((format!("chunked{}-by8192", 2 * mib), post_chunked("/big", &payload(2 * mib), &vec![8192; 256]), 2 * mib, true));
        }
        for (fl, msg, n, chunked) in big {
            for (pl, rp) in [
                ("read0".to_string(), ReadPlan::None),
                ("read1by4096".to_string(), ReadPlan::part(4096, 1)),
                (format!("read{}by4096", n / 2), ReadPlan::part(4096, n / 2)),
                (format!("read{}by4096", n - mib - 1), ReadPlan::part(4096, n - mib - 1)),
            ] {
                for (finl, fin) in [("respond", Finish::Respond(RespSpec::ok(4))), ("drop", Finish::Drop)] {
                    let mut bytes = msg.clone();
                    bytes.extend_from_slice(&get("/n1"));
                    v.push(Case {
                        label: format!("{}/{}/{}/then-get", fl, pl, finl),
                        bytes,
                        plan: ReqPlan { read: rp.clone(), finish: fin.clone() },
                        chunked,
                        consumed_all: false,
                    });
                }
            }
        }
        v
    })
}

fn scenario(c: &Case) -> Scenario {
    let h = history_len(&c.bytes);
    let mut plans = vec![ReqPlan::simple(); h];
    plans.push(c.plan.clone());
    plans.push(ReqPlan::simple());
    Scenario::one_conn(
        split_history(&c.bytes),
        AppProgram {
            plans,
            recv: RecvStyle::Recv, deferred: false, thread_per_request: false },
    )
}

fn keyer_for(chunked: bool, all: bool) -> impl Fn(&Failure, &Judged) -> String {
    move |f: &Failure, _j: &Judged| {
        std_key(
            f,
            &format!(
                "{}-{}",
                if chunked { "chunked" } else { "content-length" },
                if all { "read-to-eof" } else { "unread-body" }
            ),
        )
    }
}

/// clauses of the shared feature product (props/product.rs) that belong to this property
const PRODUCT_CLAUSES: &[&str] = &["delivered-count", "head-method", "head-target", "head-version", "head-headers"];

impl Check for C09 {
    fn id(&self) -> &'static str {
        "C09"
    }
    fn level(&self) -> &'static str {
        "exploration"
    }
    fn n_items(&self, tier: Tier) -> u64 {
        cases(tier).len() as u64 + crate::props::product::n_items(tier)
    }
    fn chunk(&self, _tier: Tier) -> u64 {
        16
    }
    fn run_item(&self, idx: u64, tier: Tier, acc: &mut Acc) {
        let base = cases(tier).len() as u64;
        if idx >= base {
            crate::props::product::run_item(idx - base, tier, acc, PRODUCT_CLAUSES);
            return;
        }
        let c = &cases(tier)[idx as usize];
        let sc = scenario(c);
        let k = keyer_for(c.chunked, c.consumed_all);
        check_scenario(&sc, acc, &JudgeOpts::default(), !c.consumed_all, &k, &|_| vec![]);
    }
    fn rule(&self, tier: Tier) -> String {
        let own = format!(
            "first request with body framing {:?} x consumption {{0, 1, len/2, len-1, len bytes without seeing end-of-stream, len/2 or len bytes followed by a read with an empty buffer, an empty-buffer read first or after two bytes followed by exactly the rest, to end-of-stream}} with read sizes 1/7/4096 x finish {{respond, drop, into_writer raw response, drop during a handler panic}} x following pipelined requests {:?}; plus bodies of 1 MiB+100 / 2 MiB+1 (declared) and 1.5 MiB (chunked by 65536){} really sent, with 0 / 1 / half / all-but-1 MiB+1 bytes read, answered or dropped, then a GET; unread bodies (declared 5 / 1025, chunked 1025, Expect) after a history of 64 / 100 / 1024 (thorough: 19 lengths from 63 to 4097) answered exchanges; {} conversations; the requests delivered after the body-bearing one must be exactly the following ones (heads and bodies), each answered, no 400; non-trivial = the body was not read to its end",
            framings(tier).iter().map(|f| f.0.clone()).collect::<Vec<_>>(), followers(tier).iter().map(|f| f.0).collect::<Vec<_>>(), if deep(tier) { " and 5 MiB / 2 MiB chunked by 8192" } else { "" }, cases(tier).len()
        );
        format!("{} || {} {:?}", own, crate::props::product::RULE, PRODUCT_CLAUSES)
    }
    fn replay(&self, replay: &Value, acc: &mut Acc) {
        if crate::props::product::is_product_replay(replay) {
            crate::props::product::replay(replay, acc, PRODUCT_CLAUSES);
            return;
        }
        let sc = scenario_from_json(&replay["scenario"]);
        let cs = client_stream(&sc, 0);
        let chunked = cs.bytes.windows(26).any(|w| w.eq_ignore_ascii_case(b"Transfer-Encoding: chunked"));
        let all = matches!(sc.app.plans[0].read, ReadPlan::Sizes { limit: None, .. } | ReadPlan::ReadToEnd);
        let k = keyer_for(chunked, all);
        replay_scenario(replay, acc, &JudgeOpts::default(), &k, &|_| vec![]);
    }
}
