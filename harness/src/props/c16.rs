//! C16 — header syntax that enables request smuggling is rejected, not interpreted.

use crate::gen::*;
use crate::infra::*;
use crate::judge::*;
use crate::l1::*;
use crate::runner::*;
use serde_json::Value;
use std::sync::OnceLock;

pub struct C16;

/// This check is cheap: the quick tier already runs the full alphabet (what used to be the
/// thorough tier); `deep` marks the extras that only the thorough tier adds.
#[allow(dead_code)]
fn full(_t: Tier) -> bool {
    true
}
#[allow(dead_code)]
fn deep(t: Tier) -> bool {
    t == Tier::Thorough
}

#[derive(Clone, Debug)]
struct Case {
    class: String,
    bytes: Vec<u8>,
}

const SMUGGLED: &[u8] = b"GET /smuggled HTTP/1.1\r\nHost: t\r\n\r\n";

/// (class, header lines of the offending request, bytes that follow its head)
fn offending(tier: Tier) -> Vec<(String, Vec<String>, Vec<u8>)> {
    let mut v: Vec<(String, Vec<String>, Vec<u8>)> = Vec::new();
    // what follows the head is arranged so that every misreading finds a request:
    //   "0\r\n\r\n" + GET : obeying a chunked coding ends the body at once
    //   5 bytes + GET     : obeying Content-Length: 5
    //   GET               : ignoring the framing header altogether
    let after_chunked: Vec<u8> = [b"0\r\n\r\n".as_ref(), SMUGGLED].concat();
    let after_cl5: Vec<u8> = [b"hello".as_ref(), SMUGGLED].concat();
    let headers: Vec<(&str, &str, &str, Vec<u8>)> = vec![
        ("content-length", "Content-Length", "5", after_cl5.clone()),
        ("transfer-encoding", "Transfer-Encoding", "chunked", after_chunked.clone()),
        ("host", "Host", "x", SMUGGLED.to_vec()),
        ("other", "X-A", "b", SMUGGLED.to_vec()),
    ];
    let wss: Vec<(&str, &str)> = if full(tier) { vec![("sp", " "), ("tab", "\t"), ("vt", "\x0b"), ("ff", "\x0c")] } else { vec![("sp", " ")] };
    for (hc, name, val, after) in &headers {
        for (_wn, ws) in &wss {
            let mid = name.len() / 2;
            let variants: Vec<(&str, String)> = vec![
                ("ws-before-name", format!("{}{}: {}", ws, name, val)),
                ("ws-inside-name", format!("{}{}{}: {}", &name[..mid], ws, &name[mid..], val)),
                ("ws-before-colon", format!("{}{}: {}", name, ws, val)),
            ];
            for (wc, line) in variants {
                // alone, after another header (obs-fold shape), and with a framing companion
                let mut shapes: Vec<Vec<String>> = vec![vec![line.clone()], vec!["X-First: 1".to_string(), line.clone()]];
                if *hc == "transfer-encoding" {
                    // the classic TE.CL vector: a front-end that rejects the odd TE line uses CL
                    shapes.push(vec![line.clone(), format!("Content-Length: {}", after.len())]);
                    shapes.push(vec![format!("Content-Length: {}", after.len()), line.clone()]);
                }
                if *hc == "content-length" {
                    shapes.push(vec!["Transfer-Encoding: chunked".to_string(), line.clone()]);
                }
                for lines in shapes {
                    let follow = if lines.iter().any(|l| l.starts_with("Transfer-Encoding: chunked")) {
                        after_chunked.clone()
                    } else {
                        after.clone()
                    };
                    v.push((format!("{}:{}", wc, hc), lines, follow));
                }
            }
        }
    }
    // a header-section line that consists of white space only (it begins with white space: the
    // obsolete line-folding shape without anything folded): as the only line, after a header,
    // before a header; what follows the head is again arranged to be found by a misreading
    for (wn, line) in [("sp", " "), ("tab", "\t"), ("sp-sp", "  "), ("sp-tab-sp", " \t "), ("vt", "\x0b"), ("ff", "\x0c")] {
        for shape in 0..3 {
            let lines: Vec<String> = match shape {
                0 => vec![line.to_string()],
                1 => vec!["X-First: 1".to_string(), line.to_string()],
                _ => vec![line.to_string(), "Content-Length: 5".to_string()],
            };
            let follow = if shape == 2 { after_cl5.clone() } else { SMUGGLED.to_vec() };
            v.push((format!("ws-only-line:{}", wn), lines, follow));
        }
    }
    // Content-Length values that are not a plain representable decimal number
    let cl_values: Vec<(&str, &str)> = vec![
        ("empty", ""),
        ("sign", "+5"),
        ("sign", "-5"),
        ("sign", "-0"),
        ("mixed", "5a"),
        ("mixed", "a5"),
        ("mixed", "0x5"),
        ("list", "5 5"),
        ("list", "5,5"),
        ("list", "5, 5"),
        ("nondigit", "5.0"),
        ("nondigit", "abc"),
        ("overflow", "18446744073709551616"),
        ("overflow", "999999999999999999999999999999"),
    ];
    for (vc, val) in cl_values {
        let line = format!("Content-Length: {}", val);
        v.push((format!("content-length-invalid:{}", vc), vec![line.clone()], SMUGGLED.to_vec()));
        v.push((format!("content-length-invalid:{}", vc), vec![line.clone()], after_cl5.clone()));
        v.push((
            format!("content-length-invalid-with-chunked:{}", vc),
            vec![line.clone(), "Transfer-Encoding: chunked".to_string()],
            after_chunked.clone(),
        ));
        if full(tier) {
            v.push((
                format!("content-length-invalid-with-chunked:{}", vc),
                vec!["Transfer-Encoding: chunked".to_string(), line.clone()],
                after_chunked.clone(),
            ));
            v.push((format!("content-length-invalid:{}", vc), vec![format!("content-length:{}", val)], SMUGGLED.to_vec()));
        }
    }
    v
}

fn cases(tier: Tier) -> &'static Vec<Case> {
    static Q: OnceLock<Vec<Case>> = OnceLock::new();
    static T: OnceLock<Vec<Case>> = OnceLock::new();
    let cell = if !full(tier) { &Q } else { &T };
    cell.get_or_init(|| {
        let mut v = Vec::new();
        for (class, lines, follow) in offending(tier) {
            for before in 0..(if full(tier) { 3 } else { 2 }) {
                let mut bytes = Vec::new();
                for i in 0..before {
                    bytes.extend_from_slice(&get(&format!("/ok{}", i)));
                }
                bytes.extend_from_slice(b"POST /victim HTTP/1.1\r\nHost: t\r\n");
                for l in &lines {
                    bytes.extend_from_slice(l.as_bytes());
                    bytes.extend_from_slice(b"\r\n");
                }
                bytes.extend_from_slice(b"\r\n");
                bytes.extend_from_slice(&follow);
                v.push(Case {
                    class: class.clone(),
                    bytes,
                });
            }
        }
        // the same after a long history of plain exchanges on the connection
        for (class, lines, follow) in offending(tier) {
            for h in history_lengths(deep(tier)) {
                let mut bytes = history(h);
                bytes.extend_from_slice(b"POST /victim HTTP/1.1\r\nHost: t\r\n");
                for l in &lines {
                    bytes.extend_from_slice(l.as_bytes());
                    bytes.extend_from_slice(b"\r\n");
                }
                bytes.extend_from_slice(b"\r\n");
                bytes.extend_from_slice(&follow);
                v.push(Case { class: class.clone(), bytes });
            }
        }
        v
    })
}

fn scenario(c: &Case) -> Scenario {
    Scenario::one_conn(split_history(&c.bytes), AppProgram::simple())
}

fn extra(j: &Judged) -> Vec<Failure> {
    // the point of the property, stated directly: the smuggled request is never delivered
    let mut f = Vec::new();
    if j.obs.reqs.iter().any(|r| r.url == "/smuggled") {
        f.push(Failure {
            clause: "smuggled-delivered",
            desc: "the bytes after the rejected head were parsed and delivered as request `GET /smuggled`".into(),
        });
    }
    if j.obs.reqs.iter().any(|r| r.url == "/victim") {
        f.push(Failure {
            clause: "offending-delivered",
            desc: "the request with the offending header syntax was delivered to the application".into(),
        });
    }
    f
}

fn class_of(bytes: &[u8]) -> String {
    for (class, lines, follow) in offending(Tier::Thorough) {
        let mut pat = Vec::new();
        pat.extend_from_slice(b"POST /victim HTTP/1.1\r\nHost: t\r\n");
        for l in &lines {
            pat.extend_from_slice(l.as_bytes());
            pat.extend_from_slice(b"\r\n");
        }
        pat.extend_from_slice(b"\r\n");
        pat.extend_from_slice(&follow);
        if bytes.ends_with(&pat) {
            return class;
        }
    }
    "unknown-class".into()
}

impl Check for C16 {
    fn id(&self) -> &'static str {
        "C16"
    }
    fn level(&self) -> &'static str {
        "exploration"
    }
    fn n_items(&self, tier: Tier) -> u64 {
        cases(tier).len() as u64
    }
    fn chunk(&self, _tier: Tier) -> u64 {
        16
    }
    fn run_item(&self, idx: u64, tier: Tier, acc: &mut Acc) {
        let c = &cases(tier)[idx as usize];
        let sc = scenario(c);
        let class = c.class.clone();
        check_scenario(&sc, acc, &JudgeOpts::default(), true, &|f, _| std_key(f, &class), &extra);
    }
    fn assumptions(&self) -> Vec<String> {
        vec!["'whitespace' is read as the ASCII white-space characters that can occur inside a line: SP, HTAB, VT (0x0B) and FF (0x0C); bare CR / LF inside a header line are not generated here (line splitting is C02/C13's subject)".into()]
    }
    fn rule(&self, tier: Tier) -> String {
        let classes: std::collections::BTreeSet<String> = offending(tier).into_iter().map(|o| o.0).collect();
        format!(
            "headers Content-Length / Transfer-Encoding / Host / X-A with SP{} inserted before the name, inside it, or before the colon, alone, after another header (obsolete line-folding shape) and with a framing companion; a header-section line of white space only (SP, HTAB, mixed, VT, FF; alone, after and before a header); Content-Length values {{empty, +5, -5, -0, 5a, a5, 0x5, '5 5', '5,5', '5, 5', 5.0, abc, 2^64, 30 nines}} with and without a chunked companion; each at position 1..{} of a pipeline and followed by bytes arranged so that every possible misreading finds the request `GET /smuggled`; every offending request also after a history of 64 / 100 / 1024 (thorough: 19 lengths from 63 to 4097) answered exchanges; {} conversations in {} classes; expected: earlier answers, then 400 and end-of-stream, neither the offending request nor `GET /smuggled` delivered",
            if full(tier) { "/HTAB/VT/FF" } else { "" }, if full(tier) { 3 } else { 2 }, cases(tier).len(), classes.len()
        )
    }
    fn replay(&self, replay: &Value, acc: &mut Acc) {
        let sc = scenario_from_json(&replay["scenario"]);
        let class = class_of(&client_stream(&sc, 0).bytes);
        replay_scenario(replay, acc, &JudgeOpts::default(), &|f, _| std_key(f, &class), &extra);
    }
}
