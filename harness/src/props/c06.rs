//! C06 — exactly one final response per delivered request; a dropped request gets a 500.

use crate::gen::*;
use crate::infra::*;
use crate::l2::*;
use crate::runner::*;
use serde_json::{json, Value};
use std::sync::OnceLock;
use std::time::Duration;
use tiny_http::verif_rt::explore::Mode;

pub struct C06;

#[derive(Clone, Debug)]
struct Slot {
    label: String,
    request: Vec<u8>,
    plan: ReqPlan,
    risky: bool,
}

fn slots(last: bool, reduced: bool) -> Vec<Slot> {
    // (label, request bytes, read plans)
    let mut reqs: Vec<(&str, Vec<u8>, Vec<(&str, ReadPlan)>)> = vec![
        ("get", get("/g"), vec![("read0", ReadPlan::None)]),
        ("head", b"HEAD /h HTTP/1.1\r\nHost: t\r\n\r\n".to_vec(), vec![("read0", ReadPlan::None)]),
        ("cl2000", post_cl("/b", &payload(2000)), vec![("read0", ReadPlan::None), ("part", ReadPlan::part(300, 700)), ("all", ReadPlan::all(512))]),
    ];
    if !reduced {
        reqs.push(("cl10", post_cl("/s", &payload(10)), vec![("read0", ReadPlan::None), ("all", ReadPlan::all(512))]));
        reqs.push(("chunked2000", post_chunked("/c", &payload(2000), &[1000, 1000]), vec![("read0", ReadPlan::None), ("part", ReadPlan::part(300, 700)), ("all", ReadPlan::all(512))]));
    }
    let mut fins: Vec<(&str, Finish, bool)> = vec![
        ("respond", Finish::Respond(RespSpec::ok(7)), false),
        ("drop", Finish::Drop, true),
        ("panic", Finish::Panic, true),
    ];
    if !reduced {
        fins.push(("raw", Finish::Writer { parts: vec![], flush: true }, false));
        if last {
            fins.push(("upgrade", Finish::Upgrade, false));
        }
    }
    if last {
        // a raw response that the application never flushes (it may stay in the write buffer):
        // everything answered BEFORE it must still reach the client at once
        fins.push(("raw-unflushed", Finish::Writer { parts: vec![vec![0u8]], flush: false }, false));
    }
    let mut v = Vec::new();
    for (rl, rb, reads) in &reqs {
        for (dl, rp) in reads {
            for (fl, fin, risky) in &fins {
                if *fl == "upgrade" && *rl != "get" {
                    continue;
                }
                v.push(Slot {
                    label: format!("{}-{}-{}", rl, dl, fl),
                    request: rb.clone(),
                    plan: ReqPlan { read: rp.clone(), finish: fin.clone() },
                    risky: *risky,
                });
            }
        }
    }
    v
}

#[derive(Clone, Debug)]
struct Item {
    slots: Vec<Slot>,
    per_thread: bool,
    bound: u32,
    /// the client sends only this many bytes of the LAST request and then waits
    withhold_tail: Option<usize>,
}

fn items(tier: Tier) -> &'static Vec<Item> {
    static Q: OnceLock<Vec<Item>> = OnceLock::new();
    static T: OnceLock<Vec<Item>> = OnceLock::new();
    let cell = if tier == Tier::Quick { &Q } else { &T };
    cell.get_or_init(|| {
        let thorough = tier == Tier::Thorough;
        let mut v = Vec::new();
        for per_thread in [false, true] {
            for s in slots(true, false) {
                v.push(Item { slots: vec![s], per_thread, bound: 2, withhold_tail: None });
            }
            for a in slots(false, !thorough) {
                for b in slots(true, !thorough) {
                    let risky = a.risky || b.risky;
                    v.push(Item {
                        slots: vec![a.clone(), b.clone()],
                        per_thread,
                        bound: if !per_thread { 0 } else if risky { 2 } else { 1 },
                        withhold_tail: None,
                    });
                }
            }
            for a in slots(false, true) {
                for b in slots(false, true) {
                    for c in slots(true, true) {
                        let risky = a.risky || b.risky || c.risky;
                        v.push(Item {
                            slots: vec![a.clone(), b.clone(), c.clone()],
                            per_thread,
                            bound: if risky && per_thread { 1 } else { 0 },
                            withhold_tail: None,
                        });
                    }
                }
            }
        }
        // the last request has a large body of which the client sends only a part, then
        // waits for the answer: every way of finishing without reading it all must still
        // produce the final response at once
        for per_thread in [false, true] {
            for first in [None, Some(slots(false, true)[0].clone())] {
                for last in slots(true, false) {
                    if !(last.label.starts_with("cl2000") || last.label.starts_with("chunked2000")) || last.label.contains("-all-") || last.label.contains("upgrade") || last.label.ends_with("-raw") {
                        // into_writer() skips the unread body before it hands the writer
                        // out: with a client that withholds the body that is a wait the
                        // statement does not rule out (noted in DESIGN.md), not judged here
                        continue;
                    }
                    // declared far above anything an implementation may buffer before it hands
                    // the request over (refmodel::MAY_BE_BUFFERED): the request IS delivered
                    let mut last = last.clone();
                    if last.label.starts_with("cl2000") {
                        let h = String::from_utf8_lossy(&last.request).replacen("Content-Length: 2000\r\n", "Content-Length: 200000\r\n", 1);
                        last.request = h.into_bytes();
                    }
                    for sent_body in [0usize, 800] {
                        if sent_body < 700 && last.label.contains("-part-") {
                            continue;
                        }
                        let mut sl = Vec::new();
                        if let Some(f) = &first {
                            sl.push(f.clone());
                        }
                        let head_len = last.request.windows(4).position(|w| w == b"\r\n\r\n").map_or(0, |p| p + 4);
                        sl.push(last.clone());
                        v.push(Item { slots: sl, per_thread, bound: if per_thread { 1 } else { 0 }, withhold_tail: Some(head_len + sent_body) });
                    }
                }
            }
        }
        // respond() whose body source fails: the request has been answered (however badly);
        // it must not be answered a second time
        for per_thread in [false, true] {
            for (len, after) in [(64usize, 0usize), (64, 10), (3000, 1500)] {
                for first in [None, Some(slots(false, true)[0].clone())] {
                    let mut sl = Vec::new();
                    if let Some(f) = &first {
                        sl.push(f.clone());
                    }
                    sl.push(Slot {
                        label: format!("get-read0-respond-failing-after-{}-of-{}", after, len),
                        request: get("/failing"),
                        plan: ReqPlan { read: ReadPlan::None, finish: Finish::RespondFailingReader { len, after } },
                        risky: true,
                    });
                    sl.push(slots(true, true)[0].clone());
                    v.push(Item { slots: sl, per_thread, bound: if per_thread { 1 } else { 0 }, withhold_tail: None });
                }
            }
        }
        // magnitudes: long pipelines cycling through every way of finishing (default schedule)
        for per_thread in [false, true] {
            for n in if thorough { vec![70usize, 130, 300, 1030] } else { vec![70usize, 130] } {
                let pool = slots(false, true);
                for shift in [0usize, 1] {
                    let mut sl: Vec<Slot> = (0..n).map(|i| pool[(i + shift * 3) % pool.len()].clone()).collect();
                    sl.push(slots(true, true)[0].clone());
                    v.push(Item { slots: sl, per_thread, bound: 0, withhold_tail: None });
                }
            }
        }
        v
    })
}

/// For programs with a failing body source the stream after the broken response cannot be
/// delimited; what the statement still pins down: no second response for that request.
fn failing_reader_clause(sc: &Scenario, o: &Obs, _r: &tiny_http::verif_rt::core::RunResult) -> Vec<crate::judge::Failure> {
    let mut f = Vec::new();
    if !sc.app.plans.iter().any(|p| matches!(p.finish, Finish::RespondFailingReader { .. })) {
        return f;
    }
    let rec = &o.conns[0].received;
    // status lines: "HTTP/1.x NNN " at the start of the stream or right after CRLF
    let mut statuses: Vec<u16> = Vec::new();
    let mut i = 0;
    while i + 12 <= rec.len() {
        if &rec[i..i + 7] == b"HTTP/1." && (i == 0 || rec[i - 1] == b'\n') && rec[i + 8] == b' ' {
            if let Ok(code) = std::str::from_utf8(&rec[i + 9..i + 12]).unwrap_or("").parse::<u16>() {
                statuses.push(code);
            }
        }
        i += 1;
    }
    if statuses.len() > o.reqs.len() || statuses.contains(&500) {
        f.push(crate::judge::Failure {
            clause: "answered-twice",
            desc: format!(
                "{} requests were delivered and each was answered by respond(), but the client stream carries the status lines {:?}: a request whose response body source failed got a second (automatic) response",
                o.reqs.len(), statuses
            ),
        });
    }
    f
}

fn scenario(it: &Item) -> Scenario {
    let mut bytes = Vec::new();
    let mut plans = Vec::new();
    for (i, s) in it.slots.iter().enumerate() {
        bytes.extend_from_slice(&s.request);
        let mut p = s.plan.clone();
        if let Finish::Writer { parts, .. } = &mut p.finish {
            *parts = raw_response_parts(i, 9, 2);
        }
        plans.push(p);
    }
    let mut app = AppProgram::with_plans(plans);
    app.thread_per_request = it.per_thread;
    if let Some(keep) = it.withhold_tail {
        let last_len = it.slots.last().map_or(0, |s| s.request.len());
        let cut = bytes.len() - last_len + keep.min(last_len);
        bytes.truncate(cut);
    }
    let mut sc = Scenario::one_conn(vec![bytes], app);
    if matches!(it.slots.last().map(|s| &s.plan.finish), Some(Finish::Upgrade)) {
        sc.script.push((0, Step::CloseWrite));
        sc.script.push((0, Step::Settle));
    }
    sc
}

fn class_of(sc: &Scenario) -> String {
    // the finding is named after the most unusual way a request of the program ends
    let fins: Vec<&Finish> = sc.app.plans.iter().map(|p| &p.finish).collect();
    let cs = crate::judge::client_stream(sc, 0);
    let chunked_unread = cs.bytes.windows(7).any(|w| w == b"chunked")
        && sc.app.plans.iter().any(|p| !matches!(p.read, ReadPlan::Sizes { limit: None, .. } | ReadPlan::ReadToEnd));
    let k = if fins.iter().any(|f| matches!(f, Finish::RespondFailingReader { .. })) {
        "respond-with-failing-body-source"
    } else if fins.iter().any(|f| matches!(f, Finish::Panic)) {
        "handler-panics"
    } else if fins.iter().any(|f| matches!(f, Finish::Drop)) {
        "request-dropped"
    } else if fins.iter().any(|f| matches!(f, Finish::Upgrade)) {
        "upgrade"
    } else if fins.iter().any(|f| matches!(f, Finish::Writer { .. })) {
        "raw-writer"
    } else {
        "respond"
    };
    if chunked_unread {
        format!("{}+chunked-body-unread", k)
    } else {
        k.to_string()
    }
}

/// clauses of the shared feature product (props/product.rs) that belong to this property
const PRODUCT_CLAUSES: &[&str] = &["response-sequence", "response-order", "hang"];

impl Check for C06 {
    fn id(&self) -> &'static str {
        "C06"
    }
    fn level(&self) -> &'static str {
        "model_checking"
    }
    fn n_items(&self, tier: Tier) -> u64 {
        items(tier).len() as u64 + crate::props::product::n_items(tier)
    }
    fn chunk(&self, _tier: Tier) -> u64 {
        8
    }
    fn run_item(&self, idx: u64, tier: Tier, acc: &mut Acc) {
        let base = items(tier).len() as u64;
        if idx >= base {
            crate::props::product::run_item(idx - base, tier, acc, PRODUCT_CLAUSES);
            return;
        }
        let it = &items(tier)[idx as usize];
        let sc = scenario(it);
        let cfg = L2Cfg {
            mode: Mode::Strict,
            bound: Some(it.bound),
            max_execs: 500_000,
            wall: Duration::from_secs(if tier == Tier::Thorough { 300 } else { 30 }),
            spurious_upto: None,
        };
        let class = class_of(&sc);
        let found = explore_runner_scenario(&cfg, acc, &sc, &class, &failing_reader_clause);
        acc.nontrivial += 1;
        if !found && it.bound > 0 {
            acc.sample(json!({"program": it.slots.iter().map(|s| s.label.clone()).collect::<Vec<_>>(), "thread_per_request": it.per_thread, "mode": "strict", "bound": it.bound}));
        }
    }
    fn rule(&self, tier: Tier) -> String {
        let own = format!(
            "handler programs for n = 1..3 pipelined requests: request {{GET, HEAD, POST Content-Length 10 / 2000, chunked 2000}} x body read {{none, part, all}} x finish {{respond, into_writer + complete raw response, upgrade (last request), drop, panic while holding the request, respond with a body source that fails after 0/10/1500 bytes}}, one handler thread per request or one thread for all (n=3{}: GET/HEAD/Content-Length 2000 x respond/drop/panic); pipelines of 70 and 130 (thorough: 300, 1030) requests cycling through all request kinds, reads and finishes, on one handler thread or one per request (default schedule); {} programs; schedules: all with at most {} deviations (strict); oracle (reference model): the client stream splits into exactly n final messages in request order with the status each action implies (500 for drop and panic), nothing duplicated or missing, no hang; non-trivial = all",
            if tier == Tier::Thorough { "" } else { " and n=2 in the quick tier" }, items(tier).len(),
"2 (n<=2 with a drop/panic), 1 (other threaded programs, n=3 with a drop/panic), 0 (single handler thread)"
        );
        format!("{} || {} {:?}", own, crate::props::product::RULE, PRODUCT_CLAUSES)
    }
    fn replay(&self, replay: &Value, acc: &mut Acc) {
        if crate::props::product::is_product_replay(replay) {
            crate::props::product::replay(replay, acc, PRODUCT_CLAUSES);
            return;
        }
        let sc = scenario_from_json(&replay["scenario"]);
        let class = class_of(&sc);
        replay_runner_scenario(acc, replay, &class, &failing_reader_clause);
    }
}
