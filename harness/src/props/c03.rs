//! C03 — the request body is delimited exactly by the message framing.

use crate::gen::*;
use crate::infra::*;
use crate::judge::*;
use crate::l1::*;
use crate::runner::*;
use serde_json::Value;
use std::sync::OnceLock;

pub struct C03;

/// This check is cheap: the quick tier already runs the full alphabet (what used to be the
/// thorough tier); `deep` marks the extras that only the thorough tier adds.
#[allow(dead_code)]
fn full(_t: Tier) -> bool {
    true
}
#[allow(dead_code)]
fn deep(t: Tier) -> bool {
    t == Tier::Thorough
}

#[derive(Clone, Debug)]
struct Case {
    label: String,
    bytes: Vec<u8>,
    read: ReadPlan,
    half_close: bool,
    nontrivial: bool,
}

fn lengths(tier: Tier) -> Vec<usize> {
    let mut v = vec![0, 1, 2, 1023, 1024, 1025, 2047, 2048, 2049, 8192, 20000, 70000];
    if deep(tier) {
        v.extend([3, 7, 100, 1000, 3071, 3072, 3073, 4095, 4096, 4097, 8191, 8193, 16384, 32768, 65535, 65536]);
        v.sort();
    }
    v
}

fn read_programs(n: usize, tier: Tier) -> Vec<(String, ReadPlan)> {
    let sz = |s: Vec<usize>| ReadPlan::Sizes {
        sizes: s,
        limit: None,
        extra: 2,
        as_reader_calls: 1,
    };
    let mut v = vec![
        ("r1".to_string(), sz(vec![1])),
        ("r7".to_string(), sz(vec![7])),
        ("r4096".to_string(), sz(vec![4096])),
        ("rn+1".to_string(), sz(vec![n + 1])),
        ("read_to_end".to_string(), ReadPlan::ReadToEnd),
    ];
    if full(tier) {
        v.push(("r2".to_string(), sz(vec![2])));
        v.push(("r3".to_string(), sz(vec![3])));
        v.push(("r1024".to_string(), sz(vec![1024])));
        v.push(("r1025".to_string(), sz(vec![1025])));
        v.push(("rn".to_string(), sz(vec![n.max(1)])));
        v.push(("r100000".to_string(), sz(vec![100000])));
        v.push(("alt1-4096".to_string(), sz(vec![1, 4096])));
        // the other methods of `Read`
        v.push(("read_vectored".to_string(), ReadPlan::OtherMethod { method: 0 }));
        v.push(("read_exact".to_string(), ReadPlan::OtherMethod { method: 1 }));
        v.push(("bytes".to_string(), ReadPlan::OtherMethod { method: 2 }));
        v.push(("read_to_string".to_string(), ReadPlan::OtherMethod { method: 3 }));
        // a read with an empty buffer returns 0 and means nothing (Read's contract): the body goes on
        v.push(("r2-empty-then-r7".to_string(), ReadPlan::OtherMethod { method: 4 }));
        v.push(("empty-then-read_to_end".to_string(), ReadPlan::OtherMethod { method: 5 }));
    }
    v
}

fn tails(tier: Tier) -> Vec<(&'static str, Vec<u8>)> {
    let mut v = vec![("none", Vec::new()), ("get", get("/next"))];
    if full(tier) {
        v.push(("chunklike", b"5\r\nhello\r\n0\r\n\r\n".to_vec()));
    }
    v
}

fn head(names: (&str, &str), te: Option<&str>, cl: Option<usize>, te_first: bool) -> Vec<u8> {
    head_v(names, te, cl, te_first, false)
}

/// `http10`: an HTTP/1.0 request that asks to keep the connection (so that what follows the
/// body is still looked at): body framing does not depend on the protocol version
fn head_v(names: (&str, &str), te: Option<&str>, cl: Option<usize>, te_first: bool, http10: bool) -> Vec<u8> {
    let mut s = if http10 { "POST /b HTTP/1.0\r\nHost: t\r\nConnection: keep-alive\r\n".to_string() } else { "POST /b HTTP/1.1\r\nHost: t\r\n".to_string() };
    let te_line = te.map(|t| format!("{}: {}\r\n", names.0, t));
    let cl_line = cl.map(|c| format!("{}: {}\r\n", names.1, c));
    if te_first {
        s.push_str(te_line.as_deref().unwrap_or(""));
        s.push_str(cl_line.as_deref().unwrap_or(""));
    } else {
        s.push_str(cl_line.as_deref().unwrap_or(""));
        s.push_str(te_line.as_deref().unwrap_or(""));
    }
    s.push_str("\r\n");
    s.into_bytes()
}

const CANON: (&str, &str) = ("Transfer-Encoding", "Content-Length");

fn cases(tier: Tier) -> &'static Vec<Case> {
    static Q: OnceLock<Vec<Case>> = OnceLock::new();
    static T: OnceLock<Vec<Case>> = OnceLock::new();
    let cell = if !full(tier) { &Q } else { &T };
    cell.get_or_init(|| {
        let thorough = full(tier);
        let mut v = Vec::new();
        for n in lengths(tier) {
            let body = payload(n);
            // framings: (label, message bytes)
            let mut framings: Vec<(String, Vec<u8>)> = Vec::new();
            let mut m = head(CANON, None, Some(n), false);
            m.extend_from_slice(&body);
            framings.push(("cl".into(), m));
            for (cn, sizes) in chunkings(n, thorough) {
                let mut m = head(CANON, Some("chunked"), None, true);
                m.extend_from_slice(&chunked(&body, &sizes, SizeSyntax::Lower));
                framings.push((format!("chunked-{}", cn), m));
            }
            // Content-Length together with chunked: chunked takes precedence
            let one: Vec<usize> = if n == 0 { vec![] } else { vec![n] };
            for (te_first, cl_val, l) in [
                (true, n, "te+cl-equal"),
                (false, n, "cl+te-equal"),
                (true, n + 7, "te+cl-larger"),
                (false, if n > 3 { n - 3 } else { n + 2 }, "cl+te-different"),
            ] {
                let mut m = head(CANON, Some("chunked"), Some(cl_val), te_first);
                m.extend_from_slice(&chunked(&body, &one, SizeSyntax::Lower));
                framings.push((l.into(), m));
            }
            for (fl, msg) in &framings {
                for (rl, rp) in read_programs(n, tier) {
                    for (tl, tail) in tails(tier) {
                        let mut bytes = msg.clone();
                        bytes.extend_from_slice(&tail);
                        v.push(Case {
                            label: format!("len{}/{}/{}/tail-{}", n, fl, rl, tl),
                            bytes,
                            read: rp.clone(),
                            half_close: false,
                            nontrivial: n > 0,
                        });
                    }
                }
            }
            // no framing at all: the body is empty, the bytes that follow are the next message
            for (rl, rp) in read_programs(n, tier).into_iter().take(3) {
                let mut bytes = head(CANON, None, None, false);
                bytes.extend_from_slice(&get("/next"));
                v.push(Case {
                    label: format!("len{}/unframed/{}", n, rl),
                    bytes,
                    read: rp,
                    half_close: false,
                    nontrivial: false,
                });
            }
            // protocol upgrade: all remaining bytes of the connection, verbatim - whatever protocol
            // the Upgrade header names (the library hands the connection over, it does not
            // interpret the offer)
            let ups: Vec<Option<&str>> = if n <= 2049 {
                vec![Some("verif"), Some("websocket"), Some("h2c"), Some("H2C"), Some("h2c, websocket"), Some("TLS/1.0, HTTP/1.1"), None]
            } else {
                vec![Some("verif")]
            };
            for up in ups {
                for (rl, rp) in read_programs(n, tier) {
                    if up != Some("verif") && !(rl == "r7" || rl == "read_to_end") {
                        continue;
                    }
                    let mut bytes = format!("GET /ws HTTP/1.1\r\nHost: t\r\nConnection: upgrade\r\n{}\r\n", up.map(|u| format!("Upgrade: {}\r\n", u)).unwrap_or_default()).into_bytes();
                    bytes.extend_from_slice(&body);
                    bytes.extend_from_slice(&get("/not-a-request"));
                    v.push(Case {
                        label: format!("len{}/upgrade-{}/{}", n, up.unwrap_or("no-upgrade-header"), rl),
                        bytes,
                        read: rp,
                        half_close: true,
                        nontrivial: true,
                    });
                }
            }
        }
        // the chunked coding named in other valid ways: in a list after another coding, on a
        // second Transfer-Encoding line, in another letter case, with and without a Content-Length
        for n in if deep(tier) { vec![0usize, 3, 1025, 3000] } else { vec![3usize, 1025] } {
            let body = payload(n);
            let one: Vec<usize> = if n == 0 { vec![] } else { vec![n] };
            for (tl, te_lines) in [
                ("gzip+chunked-list", vec!["Transfer-Encoding: gzip, chunked"]),
                ("gzip+chunked-list-tight", vec!["Transfer-Encoding: gzip,chunked"]),
                ("gzip-then-chunked-lines", vec!["Transfer-Encoding: gzip", "Transfer-Encoding: chunked"]),
                ("identity-then-chunked-lines", vec!["transfer-encoding: identity", "TRANSFER-ENCODING: Chunked"]),
                ("chunked-caps", vec!["Transfer-Encoding: CHUNKED"]),
            ] {
                for cl in [None, Some(n), Some(n + 4)] {
                    for cl_first in [false, true] {
                        if cl.is_none() && cl_first {
                            continue;
                        }
                        let mut h = "POST /b HTTP/1.1\r\nHost: t\r\n".to_string();
                        let cl_line = cl.map(|c| format!("Content-Length: {}\r\n", c)).unwrap_or_default();
                        if cl_first {
                            h.push_str(&cl_line);
                        }
                        for l in &te_lines {
                            h.push_str(l);
                            h.push_str("\r\n");
                        }
                        if !cl_first {
                            h.push_str(&cl_line);
                        }
                        h.push_str("\r\n");
                        let mut m = h.into_bytes();
                        m.extend_from_slice(&chunked(&body, &one, SizeSyntax::Lower));
                        for (rl, rp) in read_programs(n, tier).into_iter().take(5) {
                            let mut bytes = m.clone();
                            bytes.extend_from_slice(&get("/next"));
                            v.push(Case { label: format!("te-{}/len{}/cl{:?}/{}", tl, n, cl, rl), bytes, read: rp, half_close: false, nontrivial: n > 0 });
                        }
                    }
                }
            }
        }
        // every framing again on HTTP/1.0 keep-alive requests (the framing rules, including the
        // precedence of a chunked coding over Content-Length, do not depend on the version)
        for n in if deep(tier) { vec![0usize, 1, 3, 1024, 1025, 3000] } else { vec![0usize, 3, 1025] } {
            let body = payload(n);
            let mut framings: Vec<(String, Vec<u8>)> = Vec::new();
            let mut m = head_v(CANON, None, Some(n), false, true);
            m.extend_from_slice(&body);
            framings.push(("cl".into(), m));
            let one: Vec<usize> = if n == 0 { vec![] } else { vec![n] };
            let mut m = head_v(CANON, Some("chunked"), None, true, true);
            m.extend_from_slice(&chunked(&body, &one, SizeSyntax::Lower));
            framings.push(("chunked-one".into(), m));
            for (te_first, cl_val, l) in [
                (true, n, "te+cl-equal"),
                (false, n, "cl+te-equal"),
                (true, n + 7, "te+cl-larger"),
                (false, if n > 3 { n - 3 } else { n + 2 }, "cl+te-different"),
            ] {
                let mut m = head_v(CANON, Some("chunked"), Some(cl_val), te_first, true);
                m.extend_from_slice(&chunked(&body, &one, SizeSyntax::Lower));
                framings.push((l.into(), m));
            }
            for (fl, msg) in &framings {
                for (rl, rp) in read_programs(n, tier) {
                    for (tl, tail) in tails(tier) {
                        let mut bytes = msg.clone();
                        bytes.extend_from_slice(&tail);
                        v.push(Case { label: format!("http10/len{}/{}/{}/tail-{}", n, fl, rl, tl), bytes, read: rp.clone(), half_close: false, nontrivial: n > 0 });
                    }
                }
            }
        }
        // bodies after a long history of plain exchanges on the connection
        for h in history_lengths(deep(tier)) {
            for n in [1usize, 1024, 1025, 20000] {
                let body = payload(n);
                let mut framings: Vec<(String, Vec<u8>)> = Vec::new();
                let mut m = head(CANON, None, Some(n), false);
                m.extend_from_slice(&body);
                framings.push(("cl".into(), m));
                let mut m = head(CANON, Some("chunked"), None, true);
                m.extend_from_slice(&chunked(&body, &[n], SizeSyntax::Lower));
                framings.push(("chunked-one".into(), m));
                let sz = |s: Vec<usize>| ReadPlan::Sizes { sizes: s, limit: None, extra: 2, as_reader_calls: 1 };
                for (fl, msg) in &framings {
                    for (rl, rp) in [("r7", sz(vec![7])), ("r4096", sz(vec![4096])), ("read_to_end", ReadPlan::ReadToEnd)] {
                        let mut bytes = history(h);
                        bytes.extend_from_slice(msg);
                        bytes.extend_from_slice(&get("/next"));
                        v.push(Case { label: format!("history{}/len{}/{}/{}/tail-get", h, n, fl, rl), bytes, read: rp, half_close: false, nontrivial: true });
                    }
                }
            }
        }
        // bodies of megabytes (beyond any buffer, any chunk-size prefix width, any plausible
        // cap): declared, chunked by 65536, chunked in one piece
        let mib = 1usize << 20;
        for n in if deep(tier) { vec![mib + 1, 3 * mib + 5] } else { vec![mib + 1] } {
            let body = payload(n);
            let mut framings: Vec<(String, Vec<u8>)> = Vec::new();
            let mut m = head(CANON, None, Some(n), false);
            m.extend_from_slice(&body);
            framings.push(("cl".into(), m));
            let mut m = head(CANON, Some("chunked"), None, true);
            let mut sizes = vec![65536usize; n / 65536];
            sizes.push(n % 65536);
            m.extend_from_slice(&chunked(&body, &sizes, SizeSyntax::Lower));
            framings.push(("chunked-by65536".into(), m));
            let mut m = head(CANON, Some("chunked"), None, true);
            m.extend_from_slice(&chunked(&body, &[n], SizeSyntax::Upper));
            framings.push(("chunked-whole".into(), m));
            let sz = |s: Vec<usize>| ReadPlan::Sizes { sizes: s, limit: None, extra: 2, as_reader_calls: 1 };
            for (fl, msg) in &framings {
                for (rl, rp) in [("r4096", sz(vec![4096])), ("r100000", sz(vec![100000])), ("rn+1", sz(vec![n + 1])), ("read_to_end", ReadPlan::ReadToEnd)] {
                    let mut bytes = msg.clone();
                    bytes.extend_from_slice(&get("/next"));
                    v.push(Case { label: format!("len{}/{}/{}/tail-get", n, fl, rl), bytes, read: rp, half_close: false, nontrivial: true });
                }
            }
        }
        // chunk-size syntax, header-name case: lengths <= 1025, read sizes {1, 7, 4096}
        // thorough: the syntax / letter-case variants for every length, not only the small ones
        let small: Vec<usize> = lengths(tier).into_iter().filter(|&n| (n <= 1025 || (deep(tier) && n <= 20000)) && n > 0).collect();
        for n in small {
            let body = payload(n);
            for syn in ALL_SYNTAX {
                for (cn, sizes) in chunkings(n, thorough) {
                    if cn == "bytewise" && n > 64 && !thorough {
                        continue;
                    }
                    for rs in [1usize, 7, 4096] {
                        let mut bytes = head(CANON, Some("chunked"), None, true);
                        bytes.extend_from_slice(&chunked(&body, &sizes, syn));
                        bytes.extend_from_slice(&get("/next"));
                        v.push(Case {
                            label: format!("len{}/chunked-{}/{:?}/r{}", n, cn, syn, rs),
                            bytes,
                            read: ReadPlan::all(rs),
                            half_close: false,
                            nontrivial: true,
                        });
                    }
                }
            }
            for names in [
                ("transfer-encoding", "content-length"),
                ("TRANSFER-ENCODING", "CONTENT-LENGTH"),
                ("Transfer-encoding", "Content-length"),
            ] {
                for rs in [1usize, 7, 4096] {
                    let mut bytes = head(names, None, Some(n), false);
                    bytes.extend_from_slice(&body);
                    bytes.extend_from_slice(&get("/next"));
                    v.push(Case {
                        label: format!("len{}/cl/{}/r{}", n, names.1, rs),
                        bytes,
                        read: ReadPlan::all(rs),
                        half_close: false,
                        nontrivial: true,
                    });
                    for tev in ["chunked", "Chunked", "CHUNKED"] {
                        let mut bytes = head(names, Some(tev), None, true);
                        bytes.extend_from_slice(&chunked(&body, &[n], SizeSyntax::Lower));
                        bytes.extend_from_slice(&get("/next"));
                        v.push(Case {
                            label: format!("len{}/chunked/{}:{}/r{}", n, names.0, tev, rs),
                            bytes,
                            read: ReadPlan::all(rs),
                            half_close: false,
                            nontrivial: true,
                        });
                    }
                }
            }
        }
        // every chunking of small bodies
        for n in 1..=(if thorough { 6 } else { 4 }) {
            let body = payload(n);
            for comp in compositions(n) {
                for rs in [1usize, 2, 7] {
                    let mut bytes = head(CANON, Some("chunked"), None, true);
                    bytes.extend_from_slice(&chunked(&body, &comp, SizeSyntax::Lower));
                    bytes.extend_from_slice(&get("/next"));
                    v.push(Case {
                        label: format!("len{}/composition{:?}/r{}", n, comp, rs),
                        bytes,
                        read: ReadPlan::all(rs),
                        half_close: false,
                        nontrivial: true,
                    });
                }
            }
        }
        v
    })
}

fn scenario(c: &Case) -> Scenario {
    let mut plans = vec![ReqPlan::simple(); history_len(&c.bytes)];
    plans.push(ReqPlan {
        read: c.read.clone(),
        finish: Finish::Respond(RespSpec::ok(3)),
    });
    plans.push(ReqPlan::simple());
    let mut sc = Scenario::one_conn(
        split_history(&c.bytes),
        AppProgram {
            plans,
            recv: RecvStyle::Recv, deferred: false, thread_per_request: false },
    );
    if c.half_close {
        sc.script.push((0, Step::CloseWrite));
        sc.script.push((0, Step::Settle));
    }
    sc
}

fn keyer(f: &Failure, j: &Judged) -> String {
    let kind = j
        .model
        .delivered()
        .first()
        .map(|r| format!("{:?}", r.kind))
        .unwrap_or_default();
    let k = if kind.starts_with("Length") {
        "content-length"
    } else if kind.starts_with("Chunked") {
        "chunked"
    } else if kind.starts_with("Rest") {
        "upgrade"
    } else {
        "unframed"
    };
    std_key(f, k)
}

/// clauses of the shared feature product (props/product.rs) that belong to this property
const PRODUCT_CLAUSES: &[&str] = &["body-bytes", "body-length", "body-eof", "body-overrun"];

impl Check for C03 {
    fn id(&self) -> &'static str {
        "C03"
    }
    fn level(&self) -> &'static str {
        "exploration"
    }
    fn n_items(&self, tier: Tier) -> u64 {
        cases(tier).len() as u64 + crate::props::product::n_items(tier)
    }
    fn chunk(&self, _tier: Tier) -> u64 {
        16
    }
    fn run_item(&self, idx: u64, tier: Tier, acc: &mut Acc) {
        let base = cases(tier).len() as u64;
        if idx >= base {
            crate::props::product::run_item(idx - base, tier, acc, PRODUCT_CLAUSES);
            return;
        }
        let c = &cases(tier)[idx as usize];
        let sc = scenario(c);
        check_scenario(&sc, acc, &JudgeOpts::default(), c.nontrivial, &keyer, &|_| vec![]);
    }
    fn rule(&self, tier: Tier) -> String {
        let own = format!(
            "the chunked coding named as the last member of a list, on a second Transfer-Encoding line, in capitals, with and without Content-Length; every framing also on HTTP/1.0 keep-alive requests (lengths 0, 3, 1025; thorough 0, 1, 3, 1024, 1025, 3000); bodies of 1 / 1024 / 1025 / 20000 bytes (declared, chunked) after a history of 64 / 100 / 1024 (thorough: 19 lengths from 63 to 4097) answered exchanges; bodies of 1 MiB+1 (thorough: also 3 MiB+5) declared / chunked by 65536 / chunked in one piece, read by 4096 / 100000 / n+1 / read_to_end; body length {:?} x framing {{Content-Length; chunked with chunkings one/bytewise/cut1/cutlast/cut1024/8k/thirds; Content-Length together with chunked in both header orders with equal and different values; none; Connection: upgrade with Upgrade: verif / websocket / h2c / H2C / lists / absent}} x application read program {:?} (+2 reads after end-of-stream) x following bytes {:?}; plus chunk-size syntax {:?} and header-name/value letter case for lengths <= 1025 with read sizes 1/7/4096; plus every composition of bodies of 1..{} bytes; {} conversations, each on a real connection; bytes obtained, end-of-stream position and stickiness, body_length() and the fate of the following bytes compared with the reference model; non-trivial = body length > 0",
            lengths(tier), read_programs(0, tier).iter().map(|x| x.0.clone()).collect::<Vec<_>>(), tails(tier).iter().map(|t| t.0).collect::<Vec<_>>(), ALL_SYNTAX, if full(tier) { 6 } else { 4 }, cases(tier).len()
        );
        format!("{} || {} {:?}", own, crate::props::product::RULE, PRODUCT_CLAUSES)
    }
    fn assumptions(&self) -> Vec<String> {
        vec![
            "chunked trailers, whitespace before a chunk extension, transfer codings other than chunked and conflicting duplicate Content-Length are not pinned down by the property and are not generated".into(),
            "body_length() is only judged for Content-Length-only framing".into(),
        ]
    }
    fn replay(&self, replay: &Value, acc: &mut Acc) {
        if crate::props::product::is_product_replay(replay) {
            crate::props::product::replay(replay, acc, PRODUCT_CLAUSES);
            return;
        }
        replay_scenario(replay, acc, &JudgeOpts::default(), &keyer, &|_| vec![]);
    }
}
