//! C02 — request head fidelity.  L1: exhaustive enumeration of a request-head grammar,
//! packed into keep-alive connections, on TCP-like and UNIX-like peers.

use crate::infra::*;
use crate::judge::*;
use crate::l1::*;
use crate::runner::*;
use serde_json::Value;
use std::sync::OnceLock;

pub struct C02;

/// This check is cheap: the quick tier already runs the full alphabet (what used to be the
/// thorough tier); `deep` marks the extras that only the thorough tier adds.
#[allow(dead_code)]
fn full(_t: Tier) -> bool {
    true
}
#[allow(dead_code)]
fn deep(t: Tier) -> bool {
    t == Tier::Thorough
}

fn methods() -> Vec<&'static str> {
    vec![
        "GET", "HEAD", "POST", "PUT", "DELETE", "CONNECT", "OPTIONS", "TRACE", "PATCH", "get",
        "Get", "FOO", "M-SEARCH", "!#$%&'*+-.^_`|~09Az",
    ]
}

fn targets() -> Vec<String> {
    let all_visible: String = (0x21u8..=0x7e).map(|b| b as char).collect();
    vec![
        "/".to_string(),
        "*".to_string(),
        "/a?B=c&d%2F".to_string(),
        "http://example.org:8080/x/y?z".to_string(),
        "/a:b".to_string(),
        format!("/{}", all_visible),
        format!("/{}", "long/".repeat(220)),
    ]
}

/// request header names with a meaning of their own somewhere (none of them touches framing,
/// persistence or Expect here: those are varied by the checks that own them)
const WELL_KNOWN: &[&str] = &[
    "Accept", "Accept-Charset", "Accept-Encoding", "Accept-Language", "Accept-Datetime", "Access-Control-Request-Headers",
    "Access-Control-Request-Method", "Authorization", "Cache-Control", "Content-Encoding", "Content-Language", "Content-Location",
    "Content-MD5", "Content-Type", "Cookie", "Cookie2", "Set-Cookie", "Date", "DNT", "Forwarded", "From", "If-Match", "If-Modified-Since",
    "If-None-Match", "If-Range", "If-Unmodified-Since", "Link", "Max-Forwards", "Origin", "Pragma", "Prefer", "Proxy-Authorization",
    "Range", "Referer", "Sec-WebSocket-Key", "Sec-WebSocket-Protocol", "Trailer", "User-Agent", "Vary", "Via", "Warning", "X-Forwarded-For",
    "X-Forwarded-Host", "X-Forwarded-Proto", "X-Requested-With", "X-Http-Method-Override", "Keep-Alive", "Proxy-Connection", "Server",
];

fn names(tier: Tier) -> Vec<String> {
    let mut v: Vec<String> = vec!["Host".into(), "X-A".into(), "x-a".into()];
    if full(tier) {
        v.push("host".into());
        v.push("HOST".into());
        v.push("!#$%&'*+-.^_`|~09Az".into());
        v.push(format!("X-{}", "n".repeat(1100)));
    }
    v
}

fn values(tier: Tier) -> Vec<String> {
    let mut v: Vec<String> = vec!["".into(), "Va1".into(), "A:b".into(), "12: 30".into()];
    if full(tier) {
        v.push(":".into());
        v.push("a  B".into());
        v.push("x=1; note=\"k: v\", z".into());
        v.push("A\tb".into());
        v.push("w".repeat(1100));
    }
    v
}

fn ows(tier: Tier) -> Vec<(&'static str, &'static str)> {
    let mut v = vec![("", ""), (" ", "")];
    if full(tier) {
        v.push(("\t", "\t"));
        v.push(("  ", "  "));
    }
    v
}

/// header atoms as raw lines (without CRLF)
fn atoms(tier: Tier) -> Vec<String> {
    let mut v = Vec::new();
    for n in names(tier) {
        for val in values(tier) {
            for (a, b) in ows(tier) {
                v.push(format!("{}:{}{}{}", n, a, val, b));
            }
        }
    }
    v
}

fn head(method: &str, target: &str, version: &str, lines: &[String]) -> Vec<u8> {
    let mut s = format!("{} {} HTTP/{}\r\n", method, target, version);
    for l in lines {
        s.push_str(l);
        s.push_str("\r\n");
    }
    s.push_str("\r\n");
    s.into_bytes()
}

/// All heads of the tier, in a fixed order.
fn heads(tier: Tier) -> Vec<(Vec<u8>, bool)> {
    let ms = methods();
    let ts = targets();
    let at = atoms(tier);
    let mut out: Vec<(Vec<u8>, bool)> = Vec::new(); // (bytes, is HTTP/1.0)
    let mut k = 0usize;
    let mut rl = |k: &mut usize| {
        let m = ms[*k % ms.len()];
        let t = ts[(*k / ms.len()) % ts.len()].clone();
        let v10 = (*k / 3) % 5 == 0;
        *k += 1;
        (m, t, v10)
    };
    // every request line with a few header lists
    let few: Vec<Vec<String>> = vec![
        vec![],
        vec!["Host: H.example".to_string()],
        vec!["X-A: 1".to_string(), "Host: h.Example:80".to_string(), "X-A: 2".to_string()],
    ];
    for m in &ms {
        for t in &ts {
            for v10 in [false, true] {
                for (i, l) in few.iter().enumerate() {
                    if !full(tier) && i == 1 {
                        continue;
                    }
                    out.push((head(m, t, if v10 { "1.0" } else { "1.1" }, l), v10));
                }
            }
        }
    }
    // every header list of length 1 and 2 over the atoms, request lines round-robin
    for a in &at {
        let (m, t, v10) = rl(&mut k);
        out.push((head(m, &t, if v10 { "1.0" } else { "1.1" }, &[a.clone()]), v10));
    }
    for a in &at {
        for b in &at {
            let (m, t, v10) = rl(&mut k);
            out.push((
                head(m, &t, if v10 { "1.0" } else { "1.1" }, &[a.clone(), b.clone()]),
                v10,
            ));
        }
    }
    // well-known request header names, each three times in one head (as sent, lower case, upper
    // case, another header in between): names a library might know how to combine or dedupe
    for n in WELL_KNOWN {
        let (m, t, v10) = rl(&mut k);
        let lines = vec![
            format!("{}: a=1", n),
            "X-Between: y".to_string(),
            format!("{}: b=2, c", n.to_ascii_lowercase()),
            format!("{}:c=3; d", n.to_ascii_uppercase()),
        ];
        out.push((head(m, &t, if v10 { "1.0" } else { "1.1" }, &lines), v10));
        let (m, t, v10) = rl(&mut k);
        out.push((head(m, &t, if v10 { "1.0" } else { "1.1" }, &[format!("{}: a=1", n), format!("{}: a=1", n)]), v10));
    }
    if deep(tier) {
        // every header list of length 3 over a reduced atom set
        let red: Vec<String> = vec![
            "Host: h".into(), "X-A: 1".into(), "x-a:2".into(), "X-A:\tA:b ".into(), "X-E:".into(),
            "Cookie: a=1; b=\"x: y\"".into(), "Accept: */*;q=0.8".into(), "X-A: 12: 30".into(),
        ];
        for a in &red {
            for b in &red {
                for c in &red {
                    let (m, t, v10) = rl(&mut k);
                    out.push((head(m, &t, if v10 { "1.0" } else { "1.1" }, &[a.clone(), b.clone(), c.clone()]), v10));
                }
            }
        }
        // every request line with every single atom
        for m in &ms {
            for t in &ts {
                for (i, a) in at.iter().enumerate() {
                    let v10 = i % 7 == 3;
                    out.push((head(m, t, if v10 { "1.0" } else { "1.1" }, &[a.clone()]), v10));
                }
            }
        }
    }
    // request targets in every form crossed with Host headers that agree, disagree, differ in
    // case or port, are absent or repeated: the head is reported as sent, nothing is
    // reconciled between the target and Host
    for t in [
        "http://www.example.org:8080/p?q=1", "HTTP://WWW.Example.ORG/", "https://user@example.org/x", "http://h", "http://[::1]:80/",
        "*", "example.org:443", "/p", "//example.org/p", "/http://example.org/",
    ] {
        for hosts in [
            vec![], vec!["backend.internal"], vec!["www.example.org:8080"], vec!["WWW.EXAMPLE.ORG:8080"], vec!["example.org:80"], vec!["h"],
            vec!["a.example", "b.example"], vec![""],
        ] {
            for m in ["GET", "OPTIONS", "CONNECT"] {
                let mut lines: Vec<String> = hosts.iter().map(|h| format!("Host: {}", h)).collect();
                lines.push("X-After: 1".to_string());
                out.push((head(m, t, "1.1", &lines), false));
            }
        }
    }
    // long lists by cycling atoms
    for n in [3usize, 8, 63, 64] {
        for off in 0..(if !full(tier) { 1 } else { 4 }) {
            let lines: Vec<String> = (0..n).map(|i| at[(i * 7 + off) % at.len()].clone()).collect();
            let (m, t, v10) = rl(&mut k);
            out.push((head(m, &t, if v10 { "1.0" } else { "1.1" }, &lines), v10));
        }
    }
    // heads of exactly 1023 / 1024 / 1025 / 2049 bytes (around the 1 KiB read buffer)
    for total in [1023usize, 1024, 1025, 2047, 2048, 2049] {
        let base = head("GET", "/len", "1.1", &["Host: h".to_string(), "X-Pad: ".to_string()]);
        let pad = total - base.len();
        let lines = vec!["Host: h".to_string(), format!("X-Pad: {}", "p".repeat(pad))];
        out.push((head("GET", "/len", "1.1", &lines), false));
    }
    out
}

/// Packs of heads sent on one keep-alive connection (an HTTP/1.0 head ends its pack).
fn packs(tier: Tier) -> &'static Vec<Vec<u8>> {
    static Q: OnceLock<Vec<Vec<u8>>> = OnceLock::new();
    static T: OnceLock<Vec<Vec<u8>>> = OnceLock::new();
    let cell = if !full(tier) { &Q } else { &T };
    cell.get_or_init(|| {
        let mut packs = Vec::new();
        let mut cur: Vec<u8> = Vec::new();
        let mut n = 0;
        for (h, v10) in heads(tier) {
            cur.extend_from_slice(&h);
            n += 1;
            if v10 || n == 8 {
                packs.push(std::mem::take(&mut cur));
                n = 0;
            }
        }
        if !cur.is_empty() {
            packs.push(cur);
        }
        // the same heads on long-lived connections: 1100 requests each (quick: the first such
        // connection, thorough: all) - fidelity must not depend on what a connection has carried
        let mut cur: Vec<u8> = Vec::new();
        let mut n = 0;
        let mut long = 0;
        for (h, v10) in heads(tier) {
            if v10 {
                continue;
            }
            cur.extend_from_slice(&h);
            n += 1;
            if n == 1100 {
                packs.push(std::mem::take(&mut cur));
                n = 0;
                long += 1;
                if !deep(tier) && long == 1 {
                    break;
                }
            }
        }
        packs
    })
}

fn scenario(bytes: &[u8], unnamed: bool) -> Scenario {
    let mut sc = Scenario::one_conn(
        vec![bytes.to_vec()],
        AppProgram::uniform(ReqPlan {
            read: ReadPlan::None,
            finish: Finish::Respond(RespSpec::ok(2)),
        }),
    );
    sc.conns[0].unnamed_peer = unnamed;
    sc
}

fn keyer(f: &Failure, _j: &Judged) -> String {
    f.clause.to_string()
}

impl Check for C02 {
    fn id(&self) -> &'static str {
        "C02"
    }
    fn level(&self) -> &'static str {
        "exploration"
    }
    fn n_items(&self, tier: Tier) -> u64 {
        packs(tier).len() as u64 * 2
    }
    fn chunk(&self, _tier: Tier) -> u64 {
        8
    }
    fn run_item(&self, idx: u64, tier: Tier, acc: &mut Acc) {
        let p = packs(tier);
        let bytes = &p[(idx / 2) as usize];
        let sc = scenario(bytes, idx % 2 == 1);
        let j = check_scenario(&sc, acc, &JudgeOpts::default(), true, &keyer, &|_| vec![]);
        acc.count("heads", j.model.delivered().len() as u64);
    }
    fn rule(&self, tier: Tier) -> String {
        format!(
            "request heads from the RFC 7230 grammar: every request line (14 methods incl. case variants and an all-tchar token x 7 targets incl. asterisk, absolute-form, all visible ASCII, 1100 bytes x versions 1.0/1.1) with 2-3 header lists; every header list of length 1 and 2 over {} atoms (names {:?}... x values x surrounding OWS) with request lines round-robin; lists of 3/8/63/64 fields; 49 well-known request header names (Accept .. X-Requested-With, Cookie, Set-Cookie, Forwarded, Via ...), each three times in one head in three spellings with another header in between, and twice with the same value; 10 targets in every form (absolute, authority, asterisk, origin, look-alikes) x 8 Host header sets (absent, other host, same, other case, other port, repeated, empty) x GET/OPTIONS/CONNECT; heads of exactly 1023..2049 bytes; {} heads in {} keep-alive connections of up to 8 requests, and again on connections of 1100 requests (quick: one, thorough: all), x peer kinds TCP-like/UNIX-like; each delivered head compared field by field with the generator's abstract request (method, target, version, header order/multiplicity/values after OWS removal, peer address); every case is distinct and non-trivial",
            atoms(tier).len(), names(tier).iter().map(|n| if n.len() > 20 { "<1100-byte name>".to_string() } else { n.clone() }).collect::<Vec<_>>(),
            heads(tier).len(), packs(tier).len()
        )
    }
    fn assumptions(&self) -> Vec<String> {
        vec![
            "framing-relevant header names (Content-Length, Transfer-Encoding, Expect, Connection) are excluded here and covered by C03/C10/C12/C16".into(),
            "the real TCP peer address and the UNIX `None` are bound by the conformance run over kernel sockets".into(),
        ]
    }
    fn replay(&self, replay: &Value, acc: &mut Acc) {
        replay_scenario(replay, acc, &JudgeOpts::default(), &keyer, &|_| vec![]);
    }
}
