//! C13 — behaviour depends on the bytes sent, not on how they were segmented.
//! Metamorphic: every segmentation of a conversation must give the observation of the
//! unsplit delivery.

use crate::corpus::*;
use crate::infra::*;
use crate::judge::judge_robust;
use crate::l1::*;
use crate::runner::*;
use serde_json::{json, Value};
use std::cell::RefCell;
use std::collections::HashMap;
use std::sync::OnceLock;
use tiny_http::verif_rt::core::RunCfg;

pub struct C13;

/// This check is cheap: the quick tier already runs the full alphabet (what used to be the
/// thorough tier); `deep` marks the extras that only the thorough tier adds.
#[allow(dead_code)]
fn full(_t: Tier) -> bool {
    true
}
#[allow(dead_code)]
fn deep(t: Tier) -> bool {
    t == Tier::Thorough
}

#[derive(Clone, Debug)]
enum Split {
    Unsplit,
    Cuts(Vec<usize>),
    Bytewise,
    /// as Cuts, with ten minutes of (virtual) silence between the segments
    CutsPaused(Vec<usize>),
}

#[derive(Clone, Debug)]
struct Item {
    conv: usize,
    split: Split,
}

fn the_corpus() -> &'static Vec<Conv> {
    static C: OnceLock<Vec<Conv>> = OnceLock::new();
    C.get_or_init(|| corpus(true))
}

fn interesting_offsets(b: &[u8]) -> Vec<usize> {
    // around CRLFs, chunk-size lines and the 1024 / 2048 buffer offsets
    let mut v = std::collections::BTreeSet::new();
    for i in 0..b.len() {
        if b[i] == b'\r' || b[i] == b'\n' {
            for d in 0..3 {
                if i + d > 0 && i + d < b.len() {
                    v.insert(i + d);
                }
            }
        }
    }
    for base in [1024usize, 2048] {
        for d in 0..3 {
            for o in [base - 1 + d] {
                if o > 0 && o < b.len() {
                    v.insert(o);
                }
            }
        }
    }
    v.into_iter().collect()
}

fn items(tier: Tier) -> &'static Vec<Item> {
    static Q: OnceLock<Vec<Item>> = OnceLock::new();
    static T: OnceLock<Vec<Item>> = OnceLock::new();
    let cell = if !full(tier) { &Q } else { &T };
    cell.get_or_init(|| {
        let mut v = Vec::new();
        for (ci, c) in the_corpus().iter().enumerate() {
            let n = c.bytes.len();
            v.push(Item { conv: ci, split: Split::Unsplit });
            let long = n > 400;
            if !long || full(tier) {
                for k in 1..n {
                    v.push(Item { conv: ci, split: Split::Cuts(vec![k]) });
                }
            } else {
                for k in interesting_offsets(&c.bytes) {
                    v.push(Item { conv: ci, split: Split::Cuts(vec![k]) });
                }
            }
            v.push(Item { conv: ci, split: Split::Bytewise });
            {
                // pauses: ten virtual minutes of silence at every CRLF / buffer-boundary offset
                let io = interesting_offsets(&c.bytes);
                let io: Vec<usize> = if io.len() > 40 && !deep(tier) { io.iter().step_by(io.len() / 40 + 1).copied().collect() } else { io };
                for k in io {
                    v.push(Item { conv: ci, split: Split::CutsPaused(vec![k]) });
                }
            }
            if deep(tier) && n > 120 && n <= 200 {
                for a in 1..n {
                    for b in a + 1..n {
                        v.push(Item { conv: ci, split: Split::Cuts(vec![a, b]) });
                    }
                }
            }
            if deep(tier) && n <= 45 {
                for a in 1..n {
                    for b in a + 1..n {
                        for c in b + 1..n {
                            v.push(Item { conv: ci, split: Split::Cuts(vec![a, b, c]) });
                        }
                    }
                }
            }
            if full(tier) {
                if n <= 120 {
                    for a in 1..n {
                        for b in a + 1..n {
                            v.push(Item { conv: ci, split: Split::Cuts(vec![a, b]) });
                        }
                    }
                } else {
                    let io = interesting_offsets(&c.bytes);
                    let io: Vec<usize> = if io.len() > 60 { io.iter().step_by(io.len() / 60 + 1).copied().collect() } else { io };
                    for (x, &a) in io.iter().enumerate() {
                        for &b in &io[x + 1..] {
                            v.push(Item { conv: ci, split: Split::Cuts(vec![a, b]) });
                        }
                    }
                }
            } else if n <= 60 {
                for a in 1..n {
                    for b in a + 1..n {
                        v.push(Item { conv: ci, split: Split::Cuts(vec![a, b]) });
                    }
                }
            }
        }
        v
    })
}

/// The observation the property talks about: what the application received and what the
/// client got back (responses modulo Date, end-of-stream), canonically rendered.
pub fn canon(o: &Obs, res: &tiny_http::verif_rt::core::RunResult) -> String {
    let mut s = String::new();
    for r in &o.reqs {
        s.push_str(&format!(
            "REQ {} {} {:?} {:?} body={} eof={} len={:?} fin={}\n",
            r.method, esc(r.url.as_bytes()), r.version, r.headers, esc(&r.body), r.eof_seen, r.body_length, r.finish
        ));
    }
    let heads: Vec<bool> = o.reqs.iter().map(|r| r.method == "HEAD").collect();
    for c in &o.conns {
        let st = crate::httpparse::parse_stream(&c.received, &heads);
        for m in &st.msgs {
            let hs: Vec<&(String, String)> = m.headers.iter().filter(|(n, _)| !n.eq_ignore_ascii_case("date")).collect();
            s.push_str(&format!("RESP {} {:?} {:?} body={} after={}\n", m.status, m.version, hs, esc(&m.body), esc(&m.after_upgrade)));
        }
        if let Some(e) = &st.error {
            s.push_str(&format!("PARSE-ERROR {} rest={}\n", e.what, esc(&c.received[st.consumed..])));
        }
        s.push_str(&format!("EOF-at-script-end={} reset={}\n", c.eof_at_script_end, c.reset));
    }
    s.push_str(&format!("END {:?} panics={}\n", res.end, res.panics.len()));
    s
}

thread_local! {
    static BASE: RefCell<HashMap<usize, String>> = RefCell::new(HashMap::new());
}

fn baseline(ci: usize, acc: &mut Acc) -> String {
    if let Some(s) = BASE.with(|b| b.borrow().get(&ci).cloned()) {
        return s;
    }
    let c = &the_corpus()[ci];
    let sc = scenario_for(c, vec![c.bytes.clone()]);
    let (o, r) = run_scenario(&sc, &RunCfg::default());
    account_run(acc, &r);
    let s = canon(&o, &r);
    BASE.with(|b| b.borrow_mut().insert(ci, s.clone()));
    s
}

fn segments_of(c: &Conv, split: &Split) -> Vec<Vec<u8>> {
    match split {
        Split::Unsplit => vec![c.bytes.clone()],
        Split::Cuts(cuts) | Split::CutsPaused(cuts) => split_at(&c.bytes, cuts),
        Split::Bytewise => c.bytes.iter().map(|b| vec![*b]).collect(),
    }
}

/// inserts the silence of a CutsPaused split: after every segment but the last one
fn paused(mut sc: Scenario, split: &Split) -> Scenario {
    if let Split::CutsPaused(_) = split {
        let sends: Vec<usize> = sc.script.iter().enumerate().filter(|(_, s)| matches!(s.1, Step::Send(_))).map(|(i, _)| i).collect();
        for &i in sends.iter().rev().skip(1) {
            // script[i] = Send, script[i + 1] = Settle
            let conn = sc.script[i].0;
            sc.script.insert(i + 2, (conn, Step::SleepMs(600_000)));
            sc.script.insert(i + 3, (conn, Step::Settle));
        }
    }
    sc
}

fn run_one(ci: usize, split: &Split, acc: &mut Acc) {
    let c = &the_corpus()[ci];
    let base = baseline(ci, acc);
    let sc = paused(scenario_for(c, segments_of(c, split)), split);
    let (o, r) = run_scenario(&sc, &RunCfg::default());
    account_run(acc, &r);
    acc.evals += 1;
    if !matches!(split, Split::Unsplit) {
        acc.nontrivial += 1;
    }
    let got = canon(&o, &r);
    acc.outcomes.insert(hash_str(&got));
    for f in judge_robust(&r, true) {
        if f.clause == "machinery" {
            acc.machinery_errors.push(f.desc);
        }
    }
    let split_json = match split {
        Split::Unsplit => json!("unsplit"),
        Split::Bytewise => json!("bytewise"),
        Split::Cuts(c) => json!(c),
        Split::CutsPaused(c) => json!({"cuts": c, "pause_ms": 600_000}),
    };
    if got != base {
        // first differing line, for the explanation
        let diff = got
            .lines()
            .zip(base.lines())
            .find(|(a, b)| a != b)
            .map(|(a, b)| format!("split: `{}` / unsplit: `{}`", a, b))
            .unwrap_or_else(|| format!("split run has {} lines, unsplit {}", got.lines().count(), base.lines().count()));
        acc.violation(
            &format!("segmentation:{}", c.name),
            format!("conversation `{}` split at {} behaves differently: {}", c.name, split_json, diff),
            json!({"conversation": c.name, "split": split_json, "scenario": scenario_json(&sc)}),
        );
    } else if acc.samples.len() < 3 && matches!(split, Split::Cuts(_)) {
        acc.sample(json!({"conversation": c.name, "bytes": esc_short(&c.bytes, 200), "split_at": split_json, "same_as_unsplit": true}));
    }
}

impl Check for C13 {
    fn id(&self) -> &'static str {
        "C13"
    }
    fn level(&self) -> &'static str {
        "exploration"
    }
    fn n_items(&self, tier: Tier) -> u64 {
        items(tier).len() as u64
    }
    fn chunk(&self, _tier: Tier) -> u64 {
        64
    }
    fn run_item(&self, idx: u64, tier: Tier, acc: &mut Acc) {
        let it = &items(tier)[idx as usize];
        run_one(it.conv, &it.split, acc);
    }
    fn rule(&self, tier: Tier) -> String {
        let c = the_corpus();
        format!(
            "corpus of {} conversations ({} bytes total; every framing kind, every C10/C16 error class, 100-continue, pipelines, unread bodies, raw writer, deferred answers, 6 conversations crossing the 1024-byte buffers): for each the unsplit delivery, every single split point{}, one-byte-at-a-time delivery, a split with TEN MINUTES of virtual silence at every CRLF / buffer-boundary offset, and every pair of split points for conversations <= {} bytes{}; each read returns exactly one segment and the server is quiescent between segments; {} runs; oracle: delivered heads/bodies, responses modulo Date and end-of-stream identical to the unsplit run; non-trivial = any split run",
            c.len(), c.iter().map(|x| x.bytes.len()).sum::<usize>(),
            if !full(tier) { " (long conversations: around CRLFs and the 1024/2048 offsets)" } else { "" },
            if !full(tier) { 60 } else { 120 },
            if full(tier) { " (longer ones: pairs over CRLF / buffer-boundary offsets)" } else { "" },
            items(tier).len()
        )
    }
    fn assumptions(&self) -> Vec<String> {
        vec![
            "'random multi-way splits' of the quantifier are replaced by the exhaustive sets above (nothing is sampled)".into(),
            "pauses: virtual ones (10 min) in the in-memory runs, where only timers of tiny-http itself could notice them; kernel-level socket timeouts are looked for by the thorough tier's replay of 10 conversations over TCP and UNIX sockets with a real silence of 65 s (evidence/conformance-pauses.json)".into(),
        ]
    }
    fn replay(&self, replay: &Value, acc: &mut Acc) {
        let name = replay["conversation"].as_str().unwrap_or("");
        let ci = match the_corpus().iter().position(|c| c.name == name) {
            Some(c) => c,
            None => {
                acc.machinery_errors.push(format!("unknown conversation {}", name));
                return;
            }
        };
        let split = match &replay["split"] {
            Value::String(s) if s == "bytewise" => Split::Bytewise,
            Value::Array(a) => Split::Cuts(a.iter().map(|x| x.as_u64().unwrap_or(1) as usize).collect()),
            Value::Object(o) => Split::CutsPaused(o["cuts"].as_array().map(|a| a.iter().map(|x| x.as_u64().unwrap_or(1) as usize).collect()).unwrap_or_default()),
            _ => Split::Unsplit,
        };
        let c = &the_corpus()[ci];
        let b = baseline(ci, acc);
        let sc = paused(scenario_for(c, segments_of(c, &split)), &split);
        let (o, r) = run_scenario(&sc, &RunCfg::default());
        acc.notes.insert(format!("---- unsplit ----\n{}---- split {:?} ----\n{}", b, split, canon(&o, &r)));
        run_one(ci, &split, acc);
    }
}
