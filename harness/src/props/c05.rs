//! C05 — chunked/identity selection is a fixed function of version, status, TE and length.
//! L0: exhaustive enumeration of the configuration product through `Response::raw_print`.

use crate::httpparse::{parse_one, Framing};
use crate::infra::*;
use crate::props::Space;
use serde_json::{json, Value};
use std::io::Cursor;
use tiny_http::{HTTPVersion, Header, Response, StatusCode};

pub struct C05;

const VERSIONS: [(u8, u8); 3] = [(0, 9), (1, 0), (1, 1)];
const STATUSES: [u16; 7] = [100, 199, 200, 204, 304, 404, 500];
// (threshold or None = unset/default, body lengths with None = unknown)
fn thresholds() -> Vec<(Option<usize>, Vec<Option<usize>>)> {
    vec![
        (Some(0), vec![None, Some(0), Some(1)]),
        (Some(1), vec![None, Some(0), Some(1), Some(2)]),
        (Some(7), vec![None, Some(0), Some(6), Some(7), Some(8)]),
        (None, vec![None, Some(0), Some(32767), Some(32768), Some(32769)]),
        (Some(usize::MAX), vec![None, Some(0), Some(70000)]),
    ]
}

#[derive(Clone, Debug)]
pub struct TeMember {
    pub name: &'static str,
    /// None = no q parameter (weight 1)
    pub q: Option<&'static str>,
}

#[derive(Clone, Debug)]
pub struct TeSpec {
    /// header value as sent
    pub text: String,
    /// abstract members for the reference function (None = robustness-only class)
    pub members: Option<Vec<TeMember>>,
    pub header_name: &'static str,
}

const QS: [Option<&str>; 6] = [None, Some("1"), Some("0.9"), Some("0.5"), Some("0.001"), Some("0")];

fn render(members: &[TeMember], comma: &str, semi: &str) -> String {
    members
        .iter()
        .map(|m| match m.q {
            None => m.name.to_string(),
            Some(q) => format!("{}{}q={}", m.name, semi, q),
        })
        .collect::<Vec<_>>()
        .join(comma)
}

pub fn te_alphabet(tier: Tier) -> Vec<Option<TeSpec>> {
    let mut v: Vec<Option<TeSpec>> = vec![None];
    let singles = [
        "chunked", "Chunked", "CHUNKED", "identity", "Identity", "IDENTITY", "trailers",
        "Trailers", "TRAILERS", "gzip", "Gzip", "GZIP",
    ];
    for (i, s) in singles.iter().enumerate() {
        v.push(Some(TeSpec {
            text: s.to_string(),
            members: Some(vec![TeMember { name: s, q: None }]),
            header_name: ["TE", "te", "Te"][i % 3],
        }));
    }
    let names = ["chunked", "identity", "gzip"];
    // ordered pairs with every q combination
    for a in 0..3 {
        for b in 0..3 {
            if a == b {
                continue;
            }
            for qa in QS {
                for qb in QS {
                    let m = vec![
                        TeMember { name: names[a], q: qa },
                        TeMember { name: names[b], q: qb },
                    ];
                    v.push(Some(TeSpec {
                        text: render(&m, ", ", ";"),
                        members: Some(m),
                        header_name: "TE",
                    }));
                }
            }
        }
    }
    if tier == Tier::Thorough {
        let perms = [[0, 1, 2], [0, 2, 1], [1, 0, 2], [1, 2, 0], [2, 0, 1], [2, 1, 0]];
        for p in perms {
            for qa in QS {
                for qb in QS {
                    for qc in QS {
                        let m = vec![
                            TeMember { name: names[p[0]], q: qa },
                            TeMember { name: names[p[1]], q: qb },
                            TeMember { name: names[p[2]], q: qc },
                        ];
                        v.push(Some(TeSpec {
                            text: render(&m, ",", ";"),
                            members: Some(m),
                            header_name: "TE",
                        }));
                    }
                }
            }
        }
    }
    // optional whitespace around "," and ";" (RFC 7230 4.3: OWS ";" OWS "q=" rank)
    let base = [
        vec![
            TeMember { name: "chunked", q: Some("0.5") },
            TeMember { name: "identity", q: Some("0.9") },
        ],
        vec![
            TeMember { name: "identity", q: Some("0.5") },
            TeMember { name: "gzip", q: Some("1") },
            TeMember { name: "chunked", q: Some("0.9") },
        ],
        vec![
            TeMember { name: "chunked", q: Some("0") },
            TeMember { name: "identity", q: None },
        ],
    ];
    for m in base.iter() {
        for comma in [",", ", ", " ,", " , ", "\t,\t"] {
            for semi in [";", "; ", " ;", " ; ", "\t;\t"] {
                v.push(Some(TeSpec {
                    text: render(m, comma, semi),
                    members: Some(m.clone()),
                    header_name: "TE",
                }));
            }
        }
    }
    // the weight parameter name is case-insensitive (ABNF literals are, RFC 5234 2.3)
    for (text, m) in [
        ("chunked;Q=0, identity", vec![TeMember { name: "chunked", q: Some("0") }, TeMember { name: "identity", q: None }]),
        ("identity;Q=0.5, chunked;q=0.9", vec![TeMember { name: "identity", q: Some("0.5") }, TeMember { name: "chunked", q: Some("0.9") }]),
        ("chunked;q=0.5, identity;Q=0.9", vec![TeMember { name: "chunked", q: Some("0.5") }, TeMember { name: "identity", q: Some("0.9") }]),
        ("identity; Q=0, chunked", vec![TeMember { name: "identity", q: Some("0") }, TeMember { name: "chunked", q: None }]),
    ] {
        v.push(Some(TeSpec {
            text: text.to_string(),
            members: Some(m),
            header_name: "TE",
        }));
    }
    // robustness-only class: malformed weights, long lists
    let mut long = Vec::new();
    for i in 0..60 {
        long.push(match i % 3 {
            0 => "gzip;q=0.3".to_string(),
            1 => "identity;q=0.2".to_string(),
            _ => format!("x{};q=0.{}", i, i % 10),
        });
    }
    let mut long_nan = Vec::new();
    for i in 0..61 {
        long_nan.push(match i % 3 {
            0 => "gzip;q=NaN".to_string(),
            1 => format!("identity;q=0.{}", i % 10),
            _ => format!("chunked;q=0.{}", (i * 7) % 10),
        });
    }
    let malformed = vec![
        "chunked;q=".to_string(),
        "chunked;q=abc".to_string(),
        "chunked;q=NaN, identity".to_string(),
        "identity;q=inf, chunked".to_string(),
        "chunked;q=-1".to_string(),
        "chunked;q=1e40, identity;q=1e-40".to_string(),
        ";q=1".to_string(),
        ",,,".to_string(),
        "".to_string(),
        "chunked;q".to_string(),
        long.join(", "),
        long_nan.join(", "),
    ];
    for t in malformed {
        v.push(Some(TeSpec {
            text: t,
            members: None,
            header_name: "TE",
        }));
    }
    v
}

#[derive(Clone, Copy, Debug, PartialEq, Eq)]
pub enum Coding {
    Identity,
    Chunked,
}

/// The selection function, transcribed from the property statement.
/// Returns the set of acceptable codings (two when the statement does not rank them).
pub fn reference(
    version: (u8, u8),
    status: u16,
    te: Option<&[TeMember]>,
    length: Option<usize>,
    threshold: usize,
) -> Vec<Coding> {
    if version <= (1, 0) {
        return vec![Coding::Identity];
    }
    if (100..200).contains(&status) || status == 204 {
        return vec![Coding::Identity];
    }
    if let Some(ms) = te {
        // the most preferred supported coding with q > 0
        let mut best: Option<(f64, Vec<Coding>)> = None;
        for m in ms {
            let c = if m.name.eq_ignore_ascii_case("chunked") {
                Coding::Chunked
            } else if m.name.eq_ignore_ascii_case("identity") {
                Coding::Identity
            } else {
                continue;
            };
            let q: f64 = m.q.map_or(1.0, |q| q.parse().unwrap());
            if q <= 0.0 {
                continue;
            }
            match &mut best {
                None => best = Some((q, vec![c])),
                Some((bq, cs)) => {
                    if q > *bq {
                        best = Some((q, vec![c]));
                    } else if q == *bq && !cs.contains(&c) {
                        cs.push(c);
                    }
                }
            }
        }
        if let Some((_, cs)) = best {
            return cs;
        }
    }
    match length {
        None => vec![Coding::Chunked],
        Some(l) if l >= threshold => vec![Coding::Chunked],
        _ => vec![Coding::Identity],
    }
}

#[derive(Clone, Debug)]
pub struct Config {
    pub version: (u8, u8),
    pub status: u16,
    pub threshold: Option<usize>,
    pub length: Option<usize>,
    pub head: bool,
    pub upgrade: bool,
    pub te: Option<TeSpec>,
    /// how the response (and its declared length) was built
    pub build: usize,
    /// with_chunked_threshold called BEFORE the last building step (boxed / with_data /
    /// with_header / with_status_code) instead of after it
    pub threshold_first: bool,
    /// bytes the reader yields when no length is declared (the selection must not depend on it)
    pub actual_len: usize,
}

/// ways of building the same response: the selection must not depend on them
pub const BUILDS: [&str; 6] = [
    "Response::new(status, [], reader, length)",
    "Response::new(status, [], reader, None) + Content-Length header through with_header",
    "Response::new(status, [Content-Length header], reader, None)",
    "Response::new(...).boxed()",
    "Response::empty(status).with_data(reader, length)",
    "Response::new(200, [], reader, length).with_status_code(status)",
];

impl Config {
    fn to_json(&self) -> Value {
        json!({
            "version": format!("{}.{}", self.version.0, self.version.1),
            "status": self.status,
            "threshold": self.threshold.map(|t| t.to_string()),
            "length": self.length,
            "head": self.head,
            "upgrade": self.upgrade,
            "te_header": self.te.as_ref().map(|t| format!("{}: {}", t.header_name, t.text)),
            "te_wellformed": self.te.as_ref().map(|t| t.members.is_some()),
            "built_by": BUILDS[self.build],
            "threshold_set_before_the_last_building_step": self.threshold_first,
            "bytes_yielded_by_the_reader_when_undeclared": self.actual_len,
        })
    }
}

fn space(tier: Tier) -> (Space, Vec<Option<TeSpec>>, Vec<(Option<usize>, Option<usize>)>) {
    let te = te_alphabet(tier);
    let mut tl = Vec::new();
    for (t, ls) in thresholds() {
        for l in ls {
            tl.push((t, l));
        }
    }
    (
        Space::new(&[VERSIONS.len(), STATUSES.len(), tl.len(), 2, 2, te.len(), BUILDS.len(), 2]),
        te,
        tl,
    )
}

fn body_bytes(n: usize) -> Vec<u8> {
    (0..n).map(|i| b'a' + (i % 23) as u8).collect()
}

pub fn judge(cfg: &Config) -> Result<(Coding, bool), (String, String)> {
    // enormous declared lengths are only used with HEAD (nothing is read from the reader)
    let huge = cfg.head && cfg.length.map_or(false, |l| l > (1 << 26));
    let body = if huge { Vec::new() } else { body_bytes(cfg.length.unwrap_or(cfg.actual_len)) };
    let cl_header = cfg.length.map(|l| Header::from_bytes(&b"Content-Length"[..], l.to_string().as_bytes()).unwrap());
    let reader = || -> Box<dyn std::io::Read + Send> { Box::new(Cursor::new(body.clone())) };
    // the threshold is set either after the response is complete or before its last building step
    let early = cfg.threshold_first;
    macro_rules! thr {
        ($r:expr, $when:expr) => {{
            let r = $r;
            match cfg.threshold {
                Some(t) if $when => r.with_chunked_threshold(t),
                _ => r,
            }
        }};
    }
    let resp: Response<Box<dyn std::io::Read + Send>> = match (cfg.build, cl_header) {
        (1, Some(h)) => thr!(thr!(Response::new(StatusCode(cfg.status), vec![], reader(), None, None), early).with_header(h), !early),
        (2, Some(h)) => thr!(thr!(Response::new(StatusCode(cfg.status), vec![h], reader(), None, None), early).with_header(Header::from_bytes(&b"X-Other"[..], &b"1"[..]).unwrap()), !early),
        (3, _) => thr!(thr!(Response::new(StatusCode(cfg.status), vec![], Cursor::new(body.clone()), cfg.length, None), early).boxed(), !early),
        (4, _) => thr!(thr!(Response::empty(StatusCode(cfg.status)), early).with_data(reader(), cfg.length), !early),
        (5, _) => thr!(thr!(Response::new(StatusCode(200), vec![], reader(), cfg.length, None), early).with_status_code(StatusCode(cfg.status)), !early),
        _ => thr!(thr!(Response::new(StatusCode(cfg.status), vec![], reader(), cfg.length, None), early).boxed(), !early),
    };
    // the threshold the application asked for (not what the built object reports: a building
    // step that loses it must not go unnoticed)
    let threshold = cfg.threshold.unwrap_or(32768);
    if resp.chunked_threshold() != threshold {
        return Err(("threshold-lost".into(), format!("chunked_threshold() reports {} after the response was built, {} was set", resp.chunked_threshold(), threshold)));
    }
    let mut req_headers = Vec::new();
    req_headers.push(Header::from_bytes(&b"Host"[..], &b"x"[..]).unwrap());
    if let Some(te) = &cfg.te {
        req_headers.push(Header::from_bytes(te.header_name.as_bytes(), te.text.as_bytes()).unwrap());
    }
    let mut out = Vec::new();
    let r = std::panic::catch_unwind(std::panic::AssertUnwindSafe(|| {
        resp.raw_print(
            &mut out,
            HTTPVersion(cfg.version.0, cfg.version.1),
            &req_headers,
            cfg.head,
            if cfg.upgrade { Some("websocket") } else { None },
        )
    }));
    match r {
        Err(_) => return Err(("panic".into(), "raw_print panicked".into())),
        Ok(Err(e)) => return Err(("io-error".into(), format!("raw_print failed: {}", e))),
        Ok(Ok(())) => (),
    }
    // header block
    let end = match out.windows(4).position(|w| w == b"\r\n\r\n") {
        Some(e) => e,
        None => return Err(("malformed".into(), "no header block end".into())),
    };
    let head = String::from_utf8_lossy(&out[..end]).to_string();
    let mut te_vals = Vec::new();
    let mut cl_vals = Vec::new();
    for l in head.split("\r\n").skip(1) {
        if let Some((n, v)) = l.split_once(':') {
            if n.eq_ignore_ascii_case("Transfer-Encoding") {
                te_vals.push(v.trim().to_string());
            }
            if n.eq_ignore_ascii_case("Content-Length") {
                cl_vals.push(v.trim().to_string());
            }
        }
    }
    if cfg.upgrade {
        if !te_vals.is_empty() || !cl_vals.is_empty() {
            return Err((
                "upgrade-framing".into(),
                format!("upgrade response carries framing headers: TE={:?} CL={:?}", te_vals, cl_vals),
            ));
        }
        return Ok((Coding::Identity, true));
    }
    let bodiless_status = (100..200).contains(&cfg.status) || cfg.status == 204;
    let used = match (te_vals.len(), cl_vals.len()) {
        (1, 0) if te_vals[0].eq_ignore_ascii_case("chunked") => Coding::Chunked,
        (0, 1) => Coding::Identity,
        // 1xx and 204 never have a body: RFC 7230 3.3.2 forbids Content-Length there and a
        // client ignores it, so identity without the header is accepted for these two classes
        (0, 0) if bodiless_status => Coding::Identity,
        _ => {
            return Err((
                "framing-headers".into(),
                format!("expected exactly one of TE: chunked / Content-Length, got TE={:?} CL={:?}", te_vals, cl_vals),
            ))
        }
    };
    let body_length = if huge { cfg.length.unwrap_or(0) } else { body.len() };
    if used == Coding::Identity && !cl_vals.is_empty() && cl_vals[0] != body_length.to_string() {
        return Err((
            "content-length".into(),
            format!("Content-Length {} but the body has {} bytes", cl_vals[0], body_length),
        ));
    }
    // the coding announced is the coding used
    let no_body = cfg.head || (100..200).contains(&cfg.status) || cfg.status == 204 || cfg.status == 304;
    if !no_body && cfg.version >= (1, 0) {
        // parse with a 1.1 status line so that the parser accepts chunked for the check below
        match parse_one(&out, 0, false) {
            Ok(r) => {
                if r.len != out.len() || r.body != body {
                    return Err(("body".into(), "body does not decode to the data given".into()));
                }
                let f_ok = match (&r.framing, used) {
                    (Framing::Chunked, Coding::Chunked) => true,
                    (Framing::Length(_), Coding::Identity) => true,
                    _ => false,
                };
                if !f_ok {
                    return Err(("body".into(), "announced and used coding differ".into()));
                }
            }
            Err(e) => {
                if !(cfg.version < (1, 1) && used == Coding::Chunked) {
                    return Err(("body".into(), format!("output does not parse: {}", e.what)));
                }
            }
        }
    }
    let forced = cfg.version <= (1, 0) || (100..200).contains(&cfg.status) || cfg.status == 204;
    if used == Coding::Chunked && forced {
        return Err((
            "chunked-forbidden".into(),
            format!("chunked used for HTTP/{}.{} status {}", cfg.version.0, cfg.version.1, cfg.status),
        ));
    }
    if let Some(te) = &cfg.te {
        if te.members.is_none() {
            // robustness-only class: nothing more is required
            return Ok((used, forced));
        }
    }
    let members = cfg.te.as_ref().and_then(|t| t.members.as_deref());
    let want = reference(cfg.version, cfg.status, members, cfg.length, threshold);
    if !want.contains(&used) {
        return Err((
            "selection".into(),
            format!("reference selects {:?}, implementation used {:?}", want, used),
        ));
    }
    Ok((used, forced))
}

fn run_cfg(cfg: &Config, acc: &mut Acc) {
    acc.evals += 1;
    match judge(cfg) {
        Ok((used, forced)) => {
            if !forced {
                acc.nontrivial += 1;
            }
            let class = format!(
                "{:?}/{}/{}/{}",
                used,
                forced,
                cfg.te.as_ref().map_or(0, |t| if t.members.is_some() { 1 } else { 2 }),
                cfg.upgrade
            );
            acc.outcomes.insert(hash_str(&class));
            acc.sample(json!({"config": cfg.to_json(), "used": format!("{:?}", used)}));
        }
        Err((key, desc)) => {
            let te_class = match &cfg.te {
                None => "no-te",
                Some(t) if t.members.is_some() => "te",
                Some(_) => "malformed-te",
            };
            acc.violation(
                &format!("{}:{}", key, te_class),
                format!("{} for {}", desc, cfg.to_json()),
                json!({"config": cfg.to_json(), "idx_hint": null}),
            );
        }
    }
}

/// The numeric family: weights are numbers, not symbols.  EVERY pair of three-decimal
/// qvalues (0.000 .. 1.000) for chunked and identity, in both listing orders, on HTTP/1.1 with
/// status 200 and a 5-byte body: 1001 x 1001 x 2 TE values; item i covers the pairs with
/// chunked's weight = i / 1000 (2002 evaluations).
const NUMERIC_ITEMS: u64 = 1001;
/// every status code 100..=999, one item per hundred
const STATUS_SWEEP_ITEMS: u64 = 9;
/// body sizes of the size family (quick: the first five)
const SIZES: [usize; 11] = [0, 1024, 32768, 65537, (1 << 20) + 1, 1, 1023, 32767, 32769, 1 << 20, 3 << 20];

fn size_items(tier: Tier) -> u64 {
    (if tier == Tier::Quick { 5 } else { SIZES.len() as u64 }) + 1
}

/// Declared lengths far beyond anything that could be sent here, answered to HEAD (nothing
/// is read from the reader): the Content-Length printed must be the declared length, digit
/// for digit, up to usize::MAX.
fn run_huge_declared(tier: Tier, acc: &mut Acc) {
    let (_, te, _) = space(tier);
    let prefer_identity = te.iter().flatten().find(|t| t.members.as_ref().map_or(false, |m| m.len() == 1 && m[0].name.eq_ignore_ascii_case("identity") && m[0].q.is_none())).cloned();
    let mut lengths: Vec<usize> = vec![(1 << 26) + 1, i32::MAX as usize, u32::MAX as usize - 1, u32::MAX as usize, u32::MAX as usize + 1, 1 << 53, usize::MAX / 2, usize::MAX - 1, usize::MAX];
    // every power of ten from 10^8 to 10^19, minus one, exactly, plus one
    let mut p: usize = 100_000_000;
    loop {
        lengths.extend([p - 1, p, p + 1]);
        match p.checked_mul(10) {
            Some(q) => p = q,
            None => break,
        }
    }
    for length in lengths {
        for version in [(1u8, 0u8), (1, 1)] {
            for (threshold, te) in [(None, None), (Some(usize::MAX), None), (None, prefer_identity.clone())] {
                for build in [0usize, 1, 2, 4] {
                    for status in [200u16, 304] {
                        let cfg = Config { version, status, threshold, length: Some(length), head: true, upgrade: false, te: te.clone(), build, threshold_first: false, actual_len: 0 };
                        run_cfg(&cfg, acc);
                    }
                }
            }
        }
    }
}

/// The selection is a function of the DECLARED length: a body of undeclared length is treated
/// the same whatever the reader then yields, a declared one according to the declaration,
/// for every well-formed TE value, both versions, two statuses.
fn run_size_family(k: u64, tier: Tier, acc: &mut Acc) {
    let n = SIZES[k as usize];
    let (_, te, _) = space(tier);
    for t in te.iter() {
        if t.as_ref().map_or(false, |t| t.members.is_none()) {
            continue;
        }
        // the multi-MiB bodies with a reduced TE list: every value naming both codings or none
        if n > (1 << 20) + 1 && t.as_ref().map_or(false, |t| t.members.as_ref().map_or(true, |m| m.len() < 2)) {
            continue;
        }
        for version in [(1u8, 0u8), (1, 1)] {
            for status in [200u16, 404] {
                for declared in [false, true] {
                    let cfg = Config { version, status, threshold: None, length: if declared { Some(n) } else { None }, head: false, upgrade: false, te: t.clone(), build: 0, threshold_first: false, actual_len: n };
                    run_cfg(&cfg, acc);
                }
            }
        }
    }
}

/// The selection may depend on the status only through 'has no body' (1xx, 204, 304): every
/// code 100..=999 with lengths around the default threshold, declared and unknown, on both
/// versions, with and without a TE header that prefers the other coding.
fn run_status_sweep(hundred: u64, tier: Tier, acc: &mut Acc) {
    let (_, te, _) = space(tier);
    let prefer_chunked = te.iter().flatten().find(|t| t.members.as_ref().map_or(false, |m| m.len() == 1 && m[0].name.eq_ignore_ascii_case("chunked") && m[0].q.is_none())).cloned();
    for status in (100 + hundred * 100)..(200 + hundred * 100) {
        for (threshold, length) in [(None, Some(5)), (None, Some(32768)), (None, None), (Some(0), Some(5)), (Some(usize::MAX), Some(70000))] {
            for version in [(1u8, 0u8), (1, 1)] {
                for te in [None, prefer_chunked.clone()] {
                    let cfg = Config { version, status: status as u16, threshold, length, head: false, upgrade: false, te, build: 0, threshold_first: false, actual_len: 11 };
                    run_cfg(&cfg, acc);
                }
            }
        }
    }
}

fn space_size(tier: Tier) -> u64 {
    CACHE.with(|c| {
        let mut c = c.borrow_mut();
        if c.as_ref().map_or(true, |x| x.0 != tier) {
            *c = Some((tier, space(tier)));
        }
        c.as_ref().unwrap().1 .0.size()
    })
}

fn qtext(k: u32) -> String {
    format!("{}.{:03}", k / 1000, k % 1000)
}

fn run_numeric(qa: u64, acc: &mut Acc) {
    let qa = qa as u32;
    for qb in 0..=1000u32 {
        for chunked_first in [true, false] {
            let (ta, tb) = (format!("chunked;q={}", qtext(qa)), format!("identity;q={}", qtext(qb)));
            let text = if chunked_first { format!("{}, {}", ta, tb) } else { format!("{}, {}", tb, ta) };
            acc.evals += 1;
            acc.nontrivial += 1;
            // reference: higher weight wins among weights > 0; equal weights: either; none > 0:
            // length rule (5 < 32768: identity)
            let want: Vec<Coding> = if qa == 0 && qb == 0 {
                vec![Coding::Identity]
            } else if qa > qb {
                vec![Coding::Chunked]
            } else if qb > qa {
                vec![Coding::Identity]
            } else {
                vec![Coding::Chunked, Coding::Identity]
            };
            let resp = Response::new(StatusCode(200), vec![], Cursor::new(b"hello".to_vec()), Some(5), None);
            let rq = vec![Header::from_bytes(&b"Host"[..], &b"x"[..]).unwrap(), Header::from_bytes(&b"TE"[..], text.as_bytes()).unwrap()];
            let mut out = Vec::new();
            let r = std::panic::catch_unwind(std::panic::AssertUnwindSafe(|| resp.raw_print(&mut out, HTTPVersion(1, 1), &rq, false, None)));
            let used = match r {
                Ok(Ok(())) => {
                    let head = String::from_utf8_lossy(&out[..out.windows(4).position(|w| w == b"\r\n\r\n").unwrap_or(out.len())]).to_ascii_lowercase();
                    if head.contains("\r\ntransfer-encoding: chunked") {
                        Some(Coding::Chunked)
                    } else if head.contains("\r\ncontent-length: 5") {
                        Some(Coding::Identity)
                    } else {
                        None
                    }
                }
                _ => None,
            };
            let ok = used.map_or(false, |u| want.contains(&u));
            if !ok {
                acc.violation(
                    "selection:numeric-weights",
                    format!("TE: {} -> {:?} used, the weights select {:?}", text, used, want),
                    json!({"numeric_te": text, "want": format!("{:?}", want)}),
                );
                return;
            }
            acc.outcomes.insert(hash_str(&format!("numeric/{:?}", used)));
        }
    }
}

impl Check for C05 {
    fn id(&self) -> &'static str {
        "C05"
    }
    fn level(&self) -> &'static str {
        "exploration"
    }
    fn n_items(&self, tier: Tier) -> u64 {
        space(tier).0.size() + NUMERIC_ITEMS + STATUS_SWEEP_ITEMS + size_items(tier)
    }
    fn chunk(&self, _tier: Tier) -> u64 {
        20_000
    }
    fn run_item(&self, idx: u64, tier: Tier, acc: &mut Acc) {
        let n0 = space_size(tier);
        if idx >= n0 + NUMERIC_ITEMS + STATUS_SWEEP_ITEMS {
            let k = idx - n0 - NUMERIC_ITEMS - STATUS_SWEEP_ITEMS;
            if k + 1 == size_items(tier) {
                run_huge_declared(tier, acc);
            } else {
                run_size_family(k, tier, acc);
            }
            return;
        }
        if idx >= n0 + NUMERIC_ITEMS {
            run_status_sweep(idx - n0 - NUMERIC_ITEMS, tier, acc);
            return;
        }
        if idx >= n0 {
            run_numeric(idx - n0, acc);
            return;
        }
        CACHE.with(|c| {
            let mut c = c.borrow_mut();
            if c.as_ref().map_or(true, |x| x.0 != tier) {
                *c = Some((tier, space(tier)));
            }
            let (sp, te, tl) = &c.as_ref().unwrap().1;
            let d = sp.decode(idx);
            let cfg = Config {
                version: VERSIONS[d[0]],
                status: STATUSES[d[1]],
                threshold: tl[d[2]].0,
                length: tl[d[2]].1,
                head: d[3] == 1,
                upgrade: d[4] == 1,
                te: te[d[5]].clone(),
                build: d[6],
                threshold_first: d[7] == 1,
                actual_len: 11,
            };
            run_cfg(&cfg, acc);
        });
    }
    fn rule(&self, tier: Tier) -> String {
        let (sp, te, tl) = space(tier);
        format!(
            "full product version{{0.9,1.0,1.1}} x status{:?} x (threshold,length){} pairs x HEAD x upgrade x 6 ways of building the response and declaring its length (constructor argument, Content-Length header through with_header or the constructor list, boxed(), with_data, with_status_code) x the chunking threshold set after the response is complete or before its last building step x {} TE values (absent, singles in 3 letter cases, all ordered pairs{} of chunked/identity/gzip with q in {{absent,1,0.9,0.5,0.001,0}}, OWS variants, {} malformed-q robustness values) = {} configurations, plus the numeric family: EVERY pair of three-decimal weights 0.000..1.000 for chunked and identity in both listing orders (2 004 002 TE values, HTTP/1.1, status 200), the size family: bodies of 0 / 1024 / 32768 / 65537 / 1 MiB + 1 bytes (thorough: 11 sizes up to 3 MiB), declared or not (an undeclared body is selected for as 'unknown' whatever the reader yields), x every well-formed TE value x versions x statuses 200/404; declared lengths from 2^26 + 1 to usize::MAX (2^31, 2^32, 2^53 and every power of ten 10^8 .. 10^19, each minus one / exactly / plus one) answered to HEAD, x versions x (default, threshold usize::MAX, TE identity) x four ways of declaring x statuses 200/304: the Content-Length printed is the declared length digit for digit; and EVERY status code 100..999 x 5 (threshold, length) pairs x versions 1.0/1.1 x TE absent / chunked, each printed by Response::raw_print and compared with the reference selection function; non-trivial = version 1.1 and status not 1xx/204 (selection not forced)",
            STATUSES, tl.len(), te.len(),
            if tier == Tier::Thorough { " and triples" } else { "" },
            te.iter().filter(|t| t.as_ref().map_or(false, |t| t.members.is_none())).count(),
            sp.size()
        )
    }
    fn assumptions(&self) -> Vec<String> {
        vec![
            "ties between chunked and identity at equal q are accepted either way (the statement does not rank them)".into(),
            "malformed q values are judged only for robustness: no panic, exactly one framing, never chunked where forbidden".into(),
            "declared lengths are correct (the quantifier of C04/C05)".into(),
            "for 1xx and 204 responses (never a body) identity framing is accepted with a Content-Length equal to the body length or with none: RFC 7230 3.3.2 forbids the header there".into(),
        ]
    }
    fn replay(&self, replay: &Value, acc: &mut Acc) {
        if let Some(te) = replay["numeric_te"].as_str() {
            // re-run the item that contains this TE value
            let qa: u64 = te.split("chunked;q=").nth(1).and_then(|x| x.split(',').next()).and_then(|x| x.trim().parse::<f64>().ok()).map(|f| (f * 1000.0).round() as u64).unwrap_or(0);
            run_numeric(qa, acc);
            return;
        }
        let c = &replay["config"];
        let tier = Tier::Thorough;
        let te_txt = c["te_header"].as_str().map(|s| s.to_string());
        let te = te_txt.and_then(|t| {
            te_alphabet(tier)
                .into_iter()
                .flatten()
                .find(|x| format!("{}: {}", x.header_name, x.text) == t)
        });
        let ver = c["version"].as_str().unwrap_or("1.1");
        let cfg = Config {
            version: (ver.as_bytes()[0] - b'0', ver.as_bytes()[2] - b'0'),
            status: c["status"].as_u64().unwrap_or(200) as u16,
            threshold: c["threshold"].as_str().and_then(|s| s.parse().ok()),
            length: c["length"].as_u64().map(|x| x as usize),
            head: c["head"].as_bool().unwrap_or(false),
            upgrade: c["upgrade"].as_bool().unwrap_or(false),
            te,
            build: BUILDS.iter().position(|b| Some(*b) == c["built_by"].as_str()).unwrap_or(0),
            threshold_first: c["threshold_set_before_the_last_building_step"].as_bool().unwrap_or(false),
            actual_len: c["bytes_yielded_by_the_reader_when_undeclared"].as_u64().unwrap_or(11) as usize,
        };
        acc.notes.insert(format!("replaying {}", cfg.to_json()));
        run_cfg(&cfg, acc);
    }
}

thread_local! {
    static CACHE: std::cell::RefCell<Option<(Tier, (Space, Vec<Option<TeSpec>>, Vec<(Option<usize>, Option<usize>)>))>> = std::cell::RefCell::new(None);
}
