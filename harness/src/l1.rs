//! Shared driver for the scenario-based (L1) checks: run one scenario on the default
//! schedule, judge it, account for it.

use crate::infra::*;
use crate::judge::*;
use crate::refmodel::Model;
use crate::runner::*;
use serde_json::{json, Value};
use tiny_http::verif_rt::core::{RunCfg, RunResult};

pub fn account_run(acc: &mut Acc, res: &RunResult) {
    acc.execs += 1;
    acc.decisions += res.decisions.len() as u64;
    acc.points += res.points;
    acc.max_depth = acc.max_depth.max(res.decisions.len() as u64);
    acc.timer_fires += res.timer_fires;
    acc.count("max_steps_in_one_execution (the engine ends an execution as a livelock at 2000000, magnitude families raise that)", res.steps);
    acc.leaked_threads += res.leaked_threads as u64;
    if res.conflicts > 0 {
        acc.conflicting_execs += 1;
    }
}

/// Hash of the oracle-relevant observation.
pub fn obs_hash(o: &Obs, res: &RunResult) -> u64 {
    let mut h = FNV0;
    for r in &o.reqs {
        h = fnv(h, r.method.as_bytes());
        h = fnv(h, r.url.as_bytes());
        h = fnv(h, &[r.version.0, r.version.1]);
        for (n, v) in &r.headers {
            h = fnv(h, n.to_ascii_lowercase().as_bytes());
            h = fnv(h, v.as_bytes());
        }
        h = fnv(h, &r.body);
        h = fnv(h, r.finish.as_bytes());
        h = fnv(h, &[r.eof_seen as u8]);
    }
    for c in &o.conns {
        let st = crate::httpparse::parse_stream(&c.received, &[]);
        for m in &st.msgs {
            h = fnv(h, &m.status.to_be_bytes());
            h = fnv(h, &(m.body.len() as u64).to_be_bytes());
        }
        h = fnv(h, &[c.eof as u8, c.reset as u8, st.error.is_some() as u8]);
    }
    h = fnv(h, format!("{:?}", res.end).as_bytes());
    h
}

pub struct Judged {
    pub failures: Vec<Failure>,
    pub model: Model,
    pub obs: Obs,
    pub res: RunResult,
}

pub fn run_judged(sc: &Scenario, opts: &JudgeOpts, trace: bool) -> Judged {
    let rc = RunCfg {
        trace,
        ..RunCfg::default()
    };
    let (obs, res) = run_scenario(sc, &rc);
    let (failures, model) = judge_conn(sc, &obs, &res, opts);
    Judged {
        failures,
        model,
        obs,
        res,
    }
}

/// Runs, judges, accounts.  `keyer` turns a failure into the finding key (clause plus the
/// input class that made it fail); `extra` adds check-specific clauses.
pub fn check_scenario(
    sc: &Scenario,
    acc: &mut Acc,
    opts: &JudgeOpts,
    nontrivial: bool,
    keyer: &dyn Fn(&Failure, &Judged) -> String,
    extra: &dyn Fn(&Judged) -> Vec<Failure>,
) -> Judged {
    let mut j = run_judged(sc, opts, false);
    let more = extra(&j);
    j.failures.extend(more);
    acc.evals += 1;
    if nontrivial {
        acc.nontrivial += 1;
    }
    account_run(acc, &j.res);
    acc.outcomes.insert(obs_hash(&j.obs, &j.res));
    if j.failures.is_empty() {
        if acc.samples.len() < 3 && nontrivial {
            acc.sample(json!({"scenario": scenario_json_short(sc), "delivered": j.obs.reqs.len(),
                "client_received_bytes": j.obs.conns.iter().map(|c| c.received.len()).collect::<Vec<_>>()}));
        }
    } else {
        let mut seen = std::collections::BTreeSet::new();
        for fl in &j.failures {
            if fl.clause == "machinery" {
                acc.machinery_errors.push(fl.desc.clone());
                continue;
            }
            let key = keyer(fl, &j);
            if !seen.insert(key.clone()) {
                continue;
            }
            acc.violation(
                &key,
                format!("[{}] {}", fl.clause, fl.desc),
                json!({"scenario": scenario_json(sc)}),
            );
        }
    }
    j
}

/// Finding key: the input class that fails, prefixed by the clause only for the
/// robustness clauses (a panic or a hang is a different finding than a wrong answer).
pub fn std_key(f: &Failure, class: &str) -> String {
    match f.clause {
        "panic" | "hang" => format!("{}:{}", f.clause, class),
        _ => class.to_string(),
    }
}

/// scenario JSON with long byte strings abbreviated (for evidence samples)
pub fn scenario_json_short(sc: &Scenario) -> Value {
    let mut v = scenario_json(sc);
    if let Some(script) = v["script"].as_array_mut() {
        for e in script.iter_mut() {
            if let Some(s) = e[1].get("send").and_then(|s| s.as_str()).map(|s| s.to_string()) {
                if s.len() > 300 {
                    e[1]["send"] = json!(format!("{}...[{} chars]...{}", &s[..150], s.len(), &s[s.len() - 60..]));
                }
            }
        }
    }
    v
}

/// Generic replay of a recorded scenario: prints the trace and the observation.
pub fn replay_scenario(
    replay: &Value,
    acc: &mut Acc,
    opts: &JudgeOpts,
    keyer: &dyn Fn(&Failure, &Judged) -> String,
    extra: &dyn Fn(&Judged) -> Vec<Failure>,
) {
    let sc = scenario_from_json(&replay["scenario"]);
    let mut j = run_judged(&sc, opts, true);
    let more = extra(&j);
    j.failures.extend(more);
    let mut text = String::new();
    text.push_str("---- schedule trace (thread, visible operation) ----\n");
    for l in &j.res.trace {
        text.push_str(l);
        text.push('\n');
    }
    text.push_str("---- observation ----\n");
    text.push_str(&serde_json::to_string_pretty(&obs_json(&j.obs, &j.res)).unwrap());
    text.push_str("\n---- reference model ----\n");
    text.push_str(&format!("{:?}", j.model.events.iter().map(|e| match e {
        crate::refmodel::Expect::Deliver(r) => format!("Deliver({} {} body={}B complete={} last={})", r.method, esc_short(r.target.as_bytes(), 40), r.body.len(), r.body_complete, r.last),
        o => format!("{:?}", o),
    }).collect::<Vec<_>>()));
    acc.notes.insert(text);
    for fl in &j.failures {
        let key = keyer(fl, &j);
        acc.violation(&key, format!("[{}] {}", fl.clause, fl.desc), replay.clone());
    }
}
