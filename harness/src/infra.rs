//! Shared infrastructure: the `Check` trait, the accumulator a worker reports, the
//! coordinator / worker process protocol, evidence and replay files, known findings.

use serde_json::{json, Value};
use std::collections::{BTreeMap, BTreeSet};
use std::io::{BufRead, BufReader, Write};
use std::process::{Command, Stdio};
use std::sync::atomic::{AtomicU64, Ordering};
use std::sync::{Arc, Mutex};
use std::time::{Duration, Instant};

#[derive(Clone, Copy, Debug, PartialEq, Eq)]
pub enum Tier {
    Quick,
    Thorough,
}

impl Tier {
    pub fn name(&self) -> &'static str {
        match self {
            Tier::Quick => "quick",
            Tier::Thorough => "thorough",
        }
    }
}

pub fn fnv(h: u64, bytes: &[u8]) -> u64 {
    let mut h = h;
    for &b in bytes {
        h ^= b as u64;
        h = h.wrapping_mul(0x100000001b3);
    }
    h
}

pub const FNV0: u64 = 0xcbf29ce484222325;

pub fn hash_str(s: &str) -> u64 {
    fnv(FNV0, s.as_bytes())
}

/// Bytes as a printable, reversible string: printable ASCII kept, the rest as \xNN.
pub fn esc(b: &[u8]) -> String {
    let mut s = String::with_capacity(b.len());
    for &c in b {
        match c {
            b'\\' => s.push_str("\\\\"),
            b'\r' => s.push_str("\\r"),
            b'\n' => s.push_str("\\n"),
            b'\t' => s.push_str("\\t"),
            0x20..=0x7e => s.push(c as char),
            _ => s.push_str(&format!("\\x{:02x}", c)),
        }
    }
    s
}

/// Like `esc` but long runs are abbreviated (for samples / messages only).
pub fn esc_short(b: &[u8], max: usize) -> String {
    if b.len() <= max {
        esc(b)
    } else {
        format!(
            "{}...[{} bytes]...{}",
            esc(&b[..max / 2]),
            b.len(),
            esc(&b[b.len() - max / 4..])
        )
    }
}

pub fn unesc(s: &str) -> Vec<u8> {
    let b = s.as_bytes();
    let mut out = Vec::with_capacity(b.len());
    let mut i = 0;
    while i < b.len() {
        if b[i] == b'\\' && i + 1 < b.len() {
            match b[i + 1] {
                b'\\' => {
                    out.push(b'\\');
                    i += 2;
                }
                b'r' => {
                    out.push(b'\r');
                    i += 2;
                }
                b'n' => {
                    out.push(b'\n');
                    i += 2;
                }
                b't' => {
                    out.push(b'\t');
                    i += 2;
                }
                b'x' if i + 3 < b.len() + 0 && i + 4 <= b.len() => {
                    let h = std::str::from_utf8(&b[i + 2..i + 4]).unwrap_or("00");
                    out.push(u8::from_str_radix(h, 16).unwrap_or(0));
                    i += 4;
                }
                _ => {
                    out.push(b[i]);
                    i += 1;
                }
            }
        } else {
            out.push(b[i]);
            i += 1;
        }
    }
    out
}

#[derive(Clone, Debug)]
pub struct Violation {
    /// names the failing input class / call site (see known_findings.txt)
    pub key: String,
    pub desc: String,
    pub replay: Value,
}

/// What a worker reports for a range of items.
#[derive(Clone, Debug, Default)]
pub struct Acc {
    /// cases generated / executions run
    pub evals: u64,
    /// cases that are non-trivial by the check's rule
    pub nontrivial: u64,
    /// executions of the implementation under the controlled scheduler
    pub execs: u64,
    /// decision points met (model checking: states)
    pub decisions: u64,
    /// visible operations executed (model checking: transitions)
    pub points: u64,
    pub max_depth: u64,
    pub max_spent: u64,
    pub distinct_traces: u64,
    pub conflicting_execs: u64,
    pub timer_fires: u64,
    /// a cap (executions / wall) cut the space
    pub capped: bool,
    /// hashes of oracle-relevant observations
    pub outcomes: BTreeSet<u64>,
    pub violations: Vec<Violation>,
    pub samples: Vec<Value>,
    pub notes: BTreeSet<String>,
    pub counters: BTreeMap<String, u64>,
    pub machinery_errors: Vec<String>,
    pub leaked_threads: u64,
}

impl Acc {
    pub fn count(&mut self, k: &str, n: u64) {
        if k.starts_with("max_") {
            let e = self.counters.entry(k.to_string()).or_insert(0);
            *e = (*e).max(n);
            return;
        }
        *self.counters.entry(k.to_string()).or_insert(0) += n;
    }
    pub fn sample(&mut self, v: Value) {
        if self.samples.len() < 3 {
            self.samples.push(v);
        }
    }
    pub fn violation(&mut self, key: &str, desc: String, replay: Value) {
        // keep one replay per key per range: enough to reproduce, bounded output
        if self.violations.iter().filter(|v| v.key == key).count() < 2 {
            self.violations.push(Violation {
                key: key.to_string(),
                desc,
                replay,
            });
        }
        self.count(&format!("violations[{}]", key), 1);
    }
    pub fn merge(&mut self, o: Acc) {
        self.evals += o.evals;
        self.nontrivial += o.nontrivial;
        self.execs += o.execs;
        self.decisions += o.decisions;
        self.points += o.points;
        self.max_depth = self.max_depth.max(o.max_depth);
        self.max_spent = self.max_spent.max(o.max_spent);
        self.distinct_traces += o.distinct_traces;
        self.conflicting_execs += o.conflicting_execs;
        self.timer_fires += o.timer_fires;
        self.capped |= o.capped;
        self.outcomes.extend(o.outcomes);
        for v in o.violations {
            if self.violations.iter().filter(|x| x.key == v.key).count() < 3 {
                self.violations.push(v);
            }
        }
        for s in o.samples {
            if self.samples.len() < 4 {
                self.samples.push(s);
            }
        }
        self.notes.extend(o.notes);
        for (k, n) in o.counters {
            if k.starts_with("max_") {
                let e = self.counters.entry(k).or_insert(0);
                *e = (*e).max(n);
                continue;
            }
            *self.counters.entry(k).or_insert(0) += n;
        }
        self.machinery_errors.extend(o.machinery_errors);
        self.leaked_threads += o.leaked_threads;
    }
    pub fn to_json(&self) -> Value {
        json!({
            "evals": self.evals, "nontrivial": self.nontrivial, "execs": self.execs,
            "decisions": self.decisions, "points": self.points, "max_depth": self.max_depth,
            "max_spent": self.max_spent, "distinct_traces": self.distinct_traces,
            "conflicting_execs": self.conflicting_execs, "timer_fires": self.timer_fires,
            "capped": self.capped,
            "outcomes": self.outcomes.iter().map(|h| format!("{:x}", h)).collect::<Vec<_>>(),
            "violations": self.violations.iter().map(|v| json!({"key": v.key, "desc": v.desc, "replay": v.replay})).collect::<Vec<_>>(),
            "samples": self.samples,
            "notes": self.notes.iter().collect::<Vec<_>>(),
            "counters": self.counters,
            "machinery_errors": self.machinery_errors,
            "leaked_threads": self.leaked_threads,
        })
    }
    pub fn from_json(v: &Value) -> Acc {
        let u = |k: &str| v[k].as_u64().unwrap_or(0);
        let mut a = Acc {
            evals: u("evals"),
            nontrivial: u("nontrivial"),
            execs: u("execs"),
            decisions: u("decisions"),
            points: u("points"),
            max_depth: u("max_depth"),
            max_spent: u("max_spent"),
            distinct_traces: u("distinct_traces"),
            conflicting_execs: u("conflicting_execs"),
            timer_fires: u("timer_fires"),
            capped: v["capped"].as_bool().unwrap_or(false),
            leaked_threads: u("leaked_threads"),
            ..Acc::default()
        };
        if let Some(arr) = v["outcomes"].as_array() {
            for h in arr {
                if let Some(s) = h.as_str() {
                    if let Ok(x) = u64::from_str_radix(s, 16) {
                        a.outcomes.insert(x);
                    }
                }
            }
        }
        if let Some(arr) = v["violations"].as_array() {
            for x in arr {
                a.violations.push(Violation {
                    key: x["key"].as_str().unwrap_or("").to_string(),
                    desc: x["desc"].as_str().unwrap_or("").to_string(),
                    replay: x["replay"].clone(),
                });
            }
        }
        if let Some(arr) = v["samples"].as_array() {
            a.samples = arr.clone();
        }
        if let Some(arr) = v["notes"].as_array() {
            for x in arr {
                a.notes.insert(x.as_str().unwrap_or("").to_string());
            }
        }
        if let Some(m) = v["counters"].as_object() {
            for (k, n) in m {
                a.counters.insert(k.clone(), n.as_u64().unwrap_or(0));
            }
        }
        if let Some(arr) = v["machinery_errors"].as_array() {
            for x in arr {
                a.machinery_errors.push(x.as_str().unwrap_or("").to_string());
            }
        }
        a
    }
}

pub trait Check: Sync + Send {
    fn id(&self) -> &'static str;
    /// evidence level: "exploration" | "fault_enumeration" | "model_checking"
    fn level(&self) -> &'static str;
    /// number of work items of the tier; items are indexed 0..n and are deterministic
    fn n_items(&self, tier: Tier) -> u64;
    /// how many items form one unit of work handed to a worker
    fn chunk(&self, _tier: Tier) -> u64 {
        1
    }
    fn run_item(&self, idx: u64, tier: Tier, acc: &mut Acc);
    /// how cases are enumerated and what makes one non-trivial
    fn rule(&self, tier: Tier) -> String;
    fn assumptions(&self) -> Vec<String> {
        Vec::new()
    }
    /// Re-runs one recorded case; returns the violations it shows (empty = holds).
    fn replay(&self, replay: &Value, acc: &mut Acc);
    /// ANY death of a worker while running an item is a verdict (C14: also an allocation
    /// failure under the address-space cap) rather than a machinery error.  Independently
    /// of this, a worker that dies of SIGABRT/SEGV/ILL/BUS/FPE while an item is marked as
    /// in flight is always a verdict: code under test aborted the process (e.g. a panic
    /// while unwinding from a panic).
    fn crash_is_violation(&self) -> bool {
        false
    }
    /// workers announce every item before running it, so that a crash can be attributed;
    /// off by default for checks with very many very cheap in-process items
    fn mark_items(&self, tier: Tier) -> bool {
        self.crash_is_violation() || self.chunk(tier) < 1000
    }
    /// per-worker address-space cap in bytes (C14)
    fn rlimit_as(&self) -> Option<u64> {
        None
    }
    /// names the input class of an item whose worker died (key suffix) and describes it
    fn describe_item(&self, idx: u64, _tier: Tier) -> (String, Value) {
        ("item".to_string(), json!({"item": idx}))
    }
    /// extra key/values for the coverage object
    fn coverage_extra(&self, _tier: Tier, _acc: &Acc) -> Value {
        json!({})
    }
    /// wall-clock budget of the tier in seconds (the coordinator stops handing out work)
    fn wall_budget(&self, tier: Tier) -> u64 {
        match tier {
            Tier::Quick => 120,
            Tier::Thorough => 1800,
        }
    }
}

pub const STD_ASSUMPTIONS: &[&str] = &[
    "bounded: the claim covers exactly the enumerated alphabet and deviation bound stated in coverage.rule",
    "sequentially consistent interleavings only; spurious condvar wake-ups only where coverage.rule says so; mutex release is not a preemption point; Arc clone/drop are not scheduling points (DESIGN.md 2, 3.5)",
    "the in-memory network (vrt/net.rs) is a model of kernel stream sockets; it is bound to Linux TCP/UNIX sockets by the fixed conformance replay (bin/check conformance), not proved",
    "std's own primitives are trusted; vrt gives them their documented contracts (FIFO mpsc, any-waiter notify_one, monotone clock)",
    "TLS features are not built",
];

// --------------------------------------------------------------------------- worker side

pub fn pin_to_core(core: usize) {
    // best effort; exploration is correct without pinning, only slower
    #[allow(unsafe_code)]
    unsafe {
        let mut set: libc::cpu_set_t = std::mem::zeroed();
        let n = libc::sysconf(libc::_SC_NPROCESSORS_ONLN).max(1) as usize;
        libc::CPU_SET(core % n, &mut set);
        libc::sched_setaffinity(0, std::mem::size_of::<libc::cpu_set_t>(), &set);
    }
}

pub fn set_rlimit_as(bytes: u64) {
    #[allow(unsafe_code)]
    unsafe {
        let lim = libc::rlimit {
            rlim_cur: bytes,
            rlim_max: bytes,
        };
        libc::setrlimit(libc::RLIMIT_AS, &lim);
    }
}

/// Worker main loop: reads "a b" ranges from stdin, answers one JSON line per range.
pub fn worker_loop(check: &dyn Check, tier: Tier, core: usize) {
    pin_to_core(core);
    if std::env::var("VERIF_VERBOSE").is_err() {
        // panics of the code under test are recorded by the checks, not printed
        std::panic::set_hook(Box::new(|_| {}));
    }
    if let Some(b) = check.rlimit_as() {
        set_rlimit_as(b);
    }
    let stdin = std::io::stdin();
    let stdout = std::io::stdout();
    let mut line = String::new();
    let mut leaked_total = 0u64;
    loop {
        line.clear();
        if stdin.lock().read_line(&mut line).unwrap_or(0) == 0 {
            return;
        }
        let mut it = line.split_whitespace();
        let a: u64 = match it.next().and_then(|x| x.parse().ok()) {
            Some(a) => a,
            None => return,
        };
        let b: u64 = it.next().and_then(|x| x.parse().ok()).unwrap_or(a + 1);
        let mut acc = Acc::default();
        let mut done_upto = b;
        for idx in a..b {
            if check.mark_items(tier) {
                let mut o = stdout.lock();
                let _ = writeln!(o, "#begin {}", idx);
                let _ = o.flush();
            }
            check.run_item(idx, tier, &mut acc);
            // threads of abandoned executions stay parked in this process for ever: hand the
            // rest of the range back and start afresh before there are too many of them
            if leaked_total + acc.leaked_threads > 300 && idx + 1 < b {
                done_upto = idx + 1;
                break;
            }
        }
        leaked_total += acc.leaked_threads;
        let recycle = leaked_total > 300;
        let mut v = acc.to_json();
        v["recycle"] = json!(recycle);
        v["done_upto"] = json!(done_upto);
        let mut o = stdout.lock();
        let _ = writeln!(o, "{}", v);
        let _ = o.flush();
        if recycle {
            std::process::exit(0);
        }
    }
}

// --------------------------------------------------------------------------- coordinator

pub struct Outcome {
    pub acc: Acc,
    pub wall_s: f64,
    pub items_total: u64,
    pub items_done: u64,
    pub workers: usize,
}

pub fn n_workers() -> usize {
    std::env::var("VERIF_WORKERS")
        .ok()
        .and_then(|s| s.parse().ok())
        .unwrap_or_else(|| {
            std::thread::available_parallelism()
                .map(|n| n.get())
                .unwrap_or(4)
                .min(16)
        })
}

/// Workers' stderr (abort messages of the code under test, mostly) goes to a log file.
fn worker_stderr(id: &str, w: usize) -> Stdio {
    if std::env::var("VERIF_VERBOSE").is_ok() {
        return Stdio::inherit();
    }
    let dir = verif_dir().join("target");
    let _ = std::fs::create_dir_all(&dir);
    match std::fs::OpenOptions::new()
        .create(true)
        .append(true)
        .open(dir.join(format!("worker-{}-{}.log", id, w)))
    {
        Ok(f) => Stdio::from(f),
        Err(_) => Stdio::null(),
    }
}

struct WorkerProc {
    pid: u32,
    /// set while a range is running: (started, limit)
    busy: Arc<Mutex<Option<(Instant, Duration)>>>,
    child: std::process::Child,
    cin: std::process::ChildStdin,
    cout: BufReader<std::process::ChildStdout>,
}

enum RangeResult {
    /// (result, worker wants to be recycled, first item NOT done)
    Done(Acc, bool, u64),
    Died { current: Option<u64>, status: String, abort_like: bool },
}

impl WorkerProc {
    fn spawn(exe: &std::path::Path, id: &str, tier: Tier, w: usize) -> WorkerProc {
        let mut child = Command::new(exe)
            .arg(id)
            .arg("--tier")
            .arg(tier.name())
            .arg("--worker")
            .arg(w.to_string())
            .stdin(Stdio::piped())
            .stdout(Stdio::piped())
            .stderr(worker_stderr(id, w))
            .spawn()
            .expect("spawn worker");
        let cin = child.stdin.take().unwrap();
        let cout = BufReader::new(child.stdout.take().unwrap());
        let pid = child.id();
        let busy: Arc<Mutex<Option<(Instant, Duration)>>> = Arc::new(Mutex::new(None));
        // watchdog: a worker stuck in the machinery must not stall the whole check
        let b2 = busy.clone();
        std::thread::spawn(move || loop {
            std::thread::sleep(Duration::from_millis(500));
            let g = b2.lock().unwrap();
            match *g {
                Some((_, lim)) if lim == Duration::from_secs(0) => return,
                Some((t0, lim)) if t0.elapsed() > lim => {
                    #[allow(unsafe_code)]
                    unsafe {
                        libc::kill(pid as i32, libc::SIGKILL);
                    }
                    return;
                }
                _ => (),
            }
        });
        WorkerProc { pid, busy, child, cin, cout }
    }

    fn run_range(&mut self, a: u64, b: u64, limit: Duration) -> RangeResult {
        let mut current = None;
        *self.busy.lock().unwrap() = Some((Instant::now(), limit));
        let r = self.run_range_inner(a, b, &mut current);
        *self.busy.lock().unwrap() = None;
        r
    }

    fn run_range_inner(&mut self, a: u64, b: u64, current: &mut Option<u64>) -> RangeResult {
        if writeln!(self.cin, "{} {}", a, b)
            .and_then(|_| self.cin.flush())
            .is_ok()
        {
            let mut line = String::new();
            loop {
                line.clear();
                match self.cout.read_line(&mut line) {
                    Ok(0) | Err(_) => break,
                    Ok(_) => {
                        let l = line.trim_end();
                        if let Some(r) = l.strip_prefix("#begin ") {
                            *current = r.parse().ok();
                        } else if l.starts_with('{') {
                            if let Ok(v) = serde_json::from_str::<Value>(l) {
                                let recycle = v["recycle"].as_bool().unwrap_or(false);
                                let upto = v["done_upto"].as_u64().unwrap_or(b);
                                return RangeResult::Done(Acc::from_json(&v), recycle, upto);
                            }
                        }
                    }
                }
            }
        }
        let (status, abort_like) = match self.child.wait() {
            Ok(s) => {
                use std::os::unix::process::ExitStatusExt;
                // SIGILL 4, SIGABRT 6, SIGBUS 7, SIGFPE 8, SIGSEGV 11 (the watchdog and the
                // kernel's OOM killer use SIGKILL: not a verdict)
                (format!("{:?}", s), matches!(s.signal(), Some(4) | Some(6) | Some(7) | Some(8) | Some(11)))
            }
            Err(e) => (format!("wait failed: {}", e), false),
        };
        RangeResult::Died { current: *current, status, abort_like }
    }

    fn end(mut self) {
        // tells the watchdog thread to stop
        *self.busy.lock().unwrap() = Some((Instant::now(), Duration::from_secs(0)));
        let _ = self.pid;
        drop(self.cin);
        let _ = self.child.kill();
        let _ = self.child.wait();
    }
}

pub fn coordinate(check: &dyn Check, tier: Tier) -> Outcome {
    let t0 = Instant::now();
    let n = check.n_items(tier);
    let chunk = check.chunk(tier).max(1);
    let next = Arc::new(AtomicU64::new(0));
    let done_items = Arc::new(AtomicU64::new(0));
    let total = Arc::new(Mutex::new(Acc::default()));
    let redo: Arc<Mutex<Vec<(u64, u64)>>> = Arc::new(Mutex::new(Vec::new()));
    let budget = Duration::from_secs(
        std::env::var("VERIF_WALL")
            .ok()
            .and_then(|s| s.parse().ok())
            .unwrap_or_else(|| check.wall_budget(tier)),
    );
    let crashed: Arc<Mutex<Vec<(u64, String)>>> = Arc::new(Mutex::new(Vec::new()));
    let exe = std::env::current_exe().expect("current_exe");
    let workers = n_workers().min(((n + chunk - 1) / chunk).max(1) as usize);
    let mut handles = Vec::new();
    for w in 0..workers {
        let next = next.clone();
        let total = total.clone();
        let done_items = done_items.clone();
        let redo = redo.clone();
        let exe = exe.clone();
        let id = check.id().to_string();
        let crash_is_violation = check.crash_is_violation();
        let crashed = crashed.clone();
        handles.push(std::thread::spawn(move || {
            let mut wp = WorkerProc::spawn(&exe, &id, tier, w);
            loop {
                if t0.elapsed() > budget {
                    total.lock().unwrap().capped = true;
                    break;
                }
                let pending = redo.lock().unwrap().pop();
                let (a, b) = match pending {
                    Some(r) => r,
                    None => {
                        let a = next.fetch_add(chunk, Ordering::SeqCst);
                        if a >= n {
                            break;
                        }
                        (a, (a + chunk).min(n))
                    }
                };
                // a range may use what is left of the budget plus a grace period
                // (generous: on a loaded machine hand-offs between pinned threads get slow)
                let limit = budget.saturating_sub(t0.elapsed()) + budget * 3 + Duration::from_secs(120);
                match wp.run_range(a, b, limit) {
                    RangeResult::Done(acc, recycle, upto) => {
                        total.lock().unwrap().merge(acc);
                        done_items.fetch_add(upto.min(b) - a, Ordering::SeqCst);
                        if upto < b {
                            redo.lock().unwrap().push((upto, b));
                        }
                        if recycle {
                            wp.end();
                            wp = WorkerProc::spawn(&exe, &id, tier, w);
                        }
                    }
                    RangeResult::Died { current, status, abort_like } => {
                        let what = format!(
                            "worker {} died ({}) while running items {}..{} (item in flight: {:?})",
                            w, status, a, b, current
                        );
                        if crash_is_violation || (abort_like && current.is_some()) {
                            let item = current.unwrap_or(a);
                            crashed.lock().unwrap().push((item, what));
                            done_items.fetch_add(item + 1 - a, Ordering::SeqCst);
                            if item + 1 < b {
                                redo.lock().unwrap().push((item + 1, b));
                            }
                        } else {
                            total.lock().unwrap().machinery_errors.push(what);
                        }
                        wp.end();
                        wp = WorkerProc::spawn(&exe, &id, tier, w);
                    }
                }
            }
            wp.end();
        }));
    }
    for h in handles {
        let _ = h.join();
    }
    let mut acc = std::mem::take(&mut *total.lock().unwrap());
    for (item, what) in crashed.lock().unwrap().iter() {
        let (class, desc) = check.describe_item(*item, tier);
        acc.evals += 1;
        acc.violation(
            &format!("process-abort:{}", class),
            format!("{}; scenario: {}", what, desc),
            json!({"item": item, "kind": "crash", "tier": tier.name(), "class": class, "scenario": desc}),
        );
    }
    Outcome {
        acc,
        wall_s: t0.elapsed().as_secs_f64(),
        items_total: n,
        items_done: done_items.load(Ordering::SeqCst),
        workers,
    }
}

// --------------------------------------------------------------------------- findings

#[derive(Clone, Debug)]
pub struct Finding {
    pub property: String,
    pub key: String,
    pub text: String,
}

pub fn verif_dir() -> std::path::PathBuf {
    std::env::var("VERIF_DIR")
        .map(std::path::PathBuf::from)
        .unwrap_or_else(|_| std::path::PathBuf::from("/verif"))
}

/// `finding: property=<id> key=<key> <what fails>` lines of known_findings.txt.
pub fn load_known_findings() -> Vec<Finding> {
    let p = verif_dir().join("known_findings.txt");
    let mut v = Vec::new();
    if let Ok(s) = std::fs::read_to_string(p) {
        for l in s.lines() {
            let l = l.trim();
            if let Some(rest) = l.strip_prefix("finding:") {
                let mut prop = String::new();
                let mut key = String::new();
                let mut text = Vec::new();
                for w in rest.split_whitespace() {
                    if let Some(p) = w.strip_prefix("property=") {
                        prop = p.to_string();
                    } else if let Some(k) = w.strip_prefix("key=") {
                        key = k.to_string();
                    } else {
                        text.push(w);
                    }
                }
                v.push(Finding {
                    property: prop,
                    key,
                    text: text.join(" "),
                });
            }
        }
    }
    v
}


// ------------------------------------------------------------------------- logging on
//
// tiny-http logs through the `log` facade (a default feature).  The arguments of a log
// statement are only evaluated when a logger accepts the level, so code inside them is dead
// unless the application has raised the level.  Every checking process installs a logger
// that accepts everything and discards it: a panic (or a side effect) hidden in a log
// statement then shows in every check.

struct DiscardLogger;

impl log::Log for DiscardLogger {
    fn enabled(&self, _: &log::Metadata<'_>) -> bool {
        true
    }
    fn log(&self, record: &log::Record<'_>) {
        // format the arguments (that is what evaluates them), throw the text away
        let _ = format!("{}", record.args());
    }
    fn flush(&self) {}
}

static DISCARD: DiscardLogger = DiscardLogger;

pub fn install_discard_logger() {
    let _ = log::set_logger(&DISCARD);
    log::set_max_level(log::LevelFilter::Trace);
}
