//! Independent client-side HTTP/1.x response parser (RFC 7230 §3, §3.3.3, §4.1).
//! Written from the RFC, not from tiny-http: it is the oracle that splits every client
//! byte stream into messages and says whether a conforming client could delimit them
//! without relying on connection close.

#[derive(Clone, Debug, PartialEq, Eq)]
pub enum Framing {
    /// no body by rule (HEAD request, 1xx, 204, 304)
    NoBodyByRule,
    Chunked,
    Length(usize),
    /// 101 Switching Protocols: everything after the head belongs to the new protocol
    Upgraded,
}

#[derive(Clone, Debug, PartialEq, Eq)]
pub struct Resp {
    pub version: (u8, u8),
    pub status: u16,
    pub reason: String,
    pub headers: Vec<(String, String)>,
    pub body: Vec<u8>,
    pub framing: Framing,
    /// offset of the first byte of this message in the stream and its total length
    pub start: usize,
    pub len: usize,
    /// bytes that followed a 101 response
    pub after_upgrade: Vec<u8>,
}

impl Resp {
    pub fn header(&self, name: &str) -> Option<&str> {
        self.headers
            .iter()
            .find(|(n, _)| n.eq_ignore_ascii_case(name))
            .map(|(_, v)| v.as_str())
    }
    pub fn headers_named(&self, name: &str) -> Vec<&str> {
        self.headers
            .iter()
            .filter(|(n, _)| n.eq_ignore_ascii_case(name))
            .map(|(_, v)| v.as_str())
            .collect()
    }
    pub fn is_interim(&self) -> bool {
        self.status >= 100 && self.status < 200 && self.status != 101
    }
}

#[derive(Clone, Debug, PartialEq, Eq)]
pub struct ParseError {
    pub at: usize,
    pub what: String,
    /// true when the stream merely stops in the middle of a message
    pub truncated: bool,
}

fn err<T>(at: usize, what: &str) -> Result<T, ParseError> {
    Err(ParseError {
        at,
        what: what.to_string(),
        truncated: false,
    })
}

fn trunc<T>(at: usize, what: &str) -> Result<T, ParseError> {
    Err(ParseError {
        at,
        what: what.to_string(),
        truncated: true,
    })
}

fn is_tchar(b: u8) -> bool {
    b.is_ascii_alphanumeric() || b"!#$%&'*+-.^_`|~".contains(&b)
}

/// Finds CRLF starting at `from`; returns the index of the CR.
fn find_crlf(s: &[u8], from: usize) -> Option<usize> {
    let mut i = from;
    while i + 1 < s.len() {
        if s[i] == b'\r' && s[i + 1] == b'\n' {
            return Some(i);
        }
        i += 1;
    }
    None
}

/// Parses one message starting at `pos`.  `head_request`: the request this message
/// answers used the HEAD method.
pub fn parse_one(s: &[u8], pos: usize, head_request: bool) -> Result<Resp, ParseError> {
    // status-line = HTTP-version SP status-code SP reason-phrase CRLF
    let eol = match find_crlf(s, pos) {
        Some(e) => e,
        None => return trunc(pos, "no complete status line"),
    };
    let line = &s[pos..eol];
    if line.len() < 12 || &line[0..5] != b"HTTP/" {
        return err(pos, "status line does not start with HTTP/");
    }
    if !(line[5].is_ascii_digit() && line[6] == b'.' && line[7].is_ascii_digit()) {
        return err(pos, "malformed HTTP-version");
    }
    let version = (line[5] - b'0', line[7] - b'0');
    if line[8] != b' ' {
        return err(pos + 8, "no SP after HTTP-version");
    }
    if !(line[9].is_ascii_digit() && line[10].is_ascii_digit() && line[11].is_ascii_digit()) {
        return err(pos + 9, "status code is not three digits");
    }
    let status = (line[9] - b'0') as u16 * 100 + (line[10] - b'0') as u16 * 10 + (line[11] - b'0') as u16;
    if line.len() > 12 && line[12] != b' ' {
        return err(pos + 12, "no SP after status code");
    }
    let reason_bytes = if line.len() > 13 { &line[13..] } else { &line[0..0] };
    for (i, &b) in reason_bytes.iter().enumerate() {
        if !(b == b'\t' || b == b' ' || (0x21..=0x7e).contains(&b) || b >= 0x80) {
            return err(pos + 13 + i, "control character in reason phrase");
        }
    }
    let reason = String::from_utf8_lossy(reason_bytes).to_string();
    // header fields
    let mut headers = Vec::new();
    let mut p = eol + 2;
    loop {
        let e = match find_crlf(s, p) {
            Some(e) => e,
            None => return trunc(p, "header block not terminated"),
        };
        if e == p {
            p += 2;
            break;
        }
        let l = &s[p..e];
        let colon = match l.iter().position(|&b| b == b':') {
            Some(c) => c,
            None => return err(p, "header line without colon"),
        };
        if colon == 0 {
            return err(p, "empty header name");
        }
        for (i, &b) in l[..colon].iter().enumerate() {
            if !is_tchar(b) {
                return err(p + i, "invalid character in header name");
            }
        }
        let mut v = &l[colon + 1..];
        while let Some((&f, rest)) = v.split_first() {
            if f == b' ' || f == b'\t' {
                v = rest;
            } else {
                break;
            }
        }
        while let Some((&f, rest)) = v.split_last() {
            if f == b' ' || f == b'\t' {
                v = rest;
            } else {
                break;
            }
        }
        for (i, &b) in v.iter().enumerate() {
            if b == b'\r' || b == b'\n' || b == 0 || (b < 0x20 && b != b'\t') || b == 0x7f {
                return err(p + colon + 1 + i, "control character in header value");
            }
        }
        headers.push((
            String::from_utf8_lossy(&l[..colon]).to_string(),
            String::from_utf8_lossy(v).to_string(),
        ));
        p = e + 2;
    }
    let te: Vec<&(String, String)> = headers
        .iter()
        .filter(|(n, _)| n.eq_ignore_ascii_case("Transfer-Encoding"))
        .collect();
    let cl: Vec<&(String, String)> = headers
        .iter()
        .filter(|(n, _)| n.eq_ignore_ascii_case("Content-Length"))
        .collect();
    let mut r = Resp {
        version,
        status,
        reason,
        headers: headers.clone(),
        body: Vec::new(),
        framing: Framing::NoBodyByRule,
        start: pos,
        len: 0,
        after_upgrade: Vec::new(),
    };
    // RFC 7230 3.3.3
    if status == 101 {
        r.framing = Framing::Upgraded;
        r.after_upgrade = s[p..].to_vec();
        r.len = s.len() - pos;
        return Ok(r);
    }
    if head_request || (100..200).contains(&status) || status == 204 || status == 304 {
        // rule 1: terminated by the first empty line, whatever the headers say
        if (100..200).contains(&status) || status == 204 {
            if !te.is_empty() {
                return err(pos, "Transfer-Encoding in a 1xx/204 response (RFC 7230 3.3.1)");
            }
        }
        r.len = p - pos;
        return Ok(r);
    }
    if !te.is_empty() {
        if !cl.is_empty() {
            return err(pos, "both Transfer-Encoding and Content-Length");
        }
        if te.len() != 1 || !te[0].1.eq_ignore_ascii_case("chunked") {
            return err(pos, "Transfer-Encoding other than a single final chunked");
        }
        if version < (1, 1) {
            return err(pos, "chunked coding in an HTTP/1.0 response");
        }
        // chunked-body = *chunk last-chunk trailer-part CRLF
        let mut body = Vec::new();
        loop {
            let e = match find_crlf(s, p) {
                Some(e) => e,
                None => return trunc(p, "chunk-size line incomplete"),
            };
            let l = &s[p..e];
            let hex_end = l.iter().position(|&b| !b.is_ascii_hexdigit()).unwrap_or(l.len());
            if hex_end == 0 || hex_end > 16 {
                return err(p, "bad chunk size");
            }
            if hex_end < l.len() && l[hex_end] != b';' {
                return err(p + hex_end, "garbage after chunk size");
            }
            let size = usize::from_str_radix(std::str::from_utf8(&l[..hex_end]).unwrap(), 16)
                .map_err(|_| ParseError {
                    at: p,
                    what: "chunk size overflow".into(),
                    truncated: false,
                })?;
            p = e + 2;
            if size == 0 {
                // trailer-part: zero or more header lines, then CRLF
                loop {
                    let e = match find_crlf(s, p) {
                        Some(e) => e,
                        None => return trunc(p, "chunked trailer incomplete"),
                    };
                    if e == p {
                        p += 2;
                        break;
                    }
                    p = e + 2;
                }
                break;
            }
            if p + size + 2 > s.len() {
                return trunc(p, "chunk data incomplete");
            }
            body.extend_from_slice(&s[p..p + size]);
            p += size;
            if &s[p..p + 2] != b"\r\n" {
                return err(p, "chunk data not followed by CRLF");
            }
            p += 2;
        }
        r.body = body;
        r.framing = Framing::Chunked;
        r.len = p - pos;
        return Ok(r);
    }
    if !cl.is_empty() {
        let v = &cl[0].1;
        if cl.iter().any(|c| c.1 != *v) {
            return err(pos, "conflicting Content-Length values");
        }
        if v.is_empty() || !v.bytes().all(|b| b.is_ascii_digit()) {
            return err(pos, "invalid Content-Length");
        }
        let n: usize = match v.parse() {
            Ok(n) => n,
            Err(_) => return err(pos, "Content-Length overflow"),
        };
        if p + n > s.len() {
            return trunc(p, "body shorter than Content-Length");
        }
        r.body = s[p..p + n].to_vec();
        r.framing = Framing::Length(n);
        r.len = p + n - pos;
        return Ok(r);
    }
    // rule 7: delimited by connection close — exactly what C04 forbids
    err(pos, "response has neither Content-Length nor chunked coding: only close delimits it")
}

#[derive(Clone, Debug, Default)]
pub struct Stream {
    pub msgs: Vec<Resp>,
    /// set when parsing stopped before the end of the bytes
    pub error: Option<ParseError>,
    pub consumed: usize,
}

/// Splits a client byte stream into messages.  `head_flags[i]`: the i-th *final*
/// response answers a HEAD request (interim 1xx responses do not consume a slot).
pub fn parse_stream(s: &[u8], head_flags: &[bool]) -> Stream {
    let mut out = Stream::default();
    let mut pos = 0;
    let mut final_no = 0;
    while pos < s.len() {
        let head = head_flags.get(final_no).copied().unwrap_or(false);
        match parse_one(s, pos, head) {
            Ok(r) => {
                pos += r.len;
                if !r.is_interim() {
                    final_no += 1;
                }
                out.msgs.push(r);
            }
            Err(e) => {
                out.error = Some(e);
                break;
            }
        }
    }
    out.consumed = pos;
    out
}

impl Stream {
    pub fn finals(&self) -> Vec<&Resp> {
        self.msgs.iter().filter(|m| !m.is_interim()).collect()
    }
    pub fn statuses(&self) -> Vec<u16> {
        self.msgs.iter().map(|m| m.status).collect()
    }
}

#[cfg(test)]
mod tests {
    use super::*;
    #[test]
    fn basic() {
        let s = b"HTTP/1.1 200 OK\r\nContent-Length: 3\r\n\r\nabcHTTP/1.1 200 OK\r\nTransfer-Encoding: chunked\r\n\r\n3\r\nabc\r\n0\r\n\r\n";
        let st = parse_stream(s, &[false, false]);
        assert!(st.error.is_none());
        assert_eq!(st.msgs.len(), 2);
        assert_eq!(st.msgs[1].body, b"abc");
        let st = parse_stream(b"HTTP/1.1 200 OK\r\n\r\nabc", &[false]);
        assert!(st.error.is_some());
        let st = parse_stream(b"HTTP/1.1 200 OK\r\nContent-Length: 5\r\n\r\nabc", &[false]);
        assert!(st.error.unwrap().truncated);
        let st = parse_stream(b"HTTP/1.1 200 OK\r\nContent-Length: 5\r\n\r\n", &[true]);
        assert!(st.error.is_none());
    }
}
