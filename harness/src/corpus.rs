//! Corpus of conversations covering every framing kind and error class; shared by the
//! segmentation check (C13) and the client-vanishes check (C15).

use crate::gen::*;
use crate::runner::*;

#[derive(Clone, Debug)]
pub struct Conv {
    pub name: String,
    pub bytes: Vec<u8>,
    pub app: AppProgram,
    /// the client closes its sending side after the last byte
    pub half_close: bool,
}

fn conv(name: &str, bytes: Vec<u8>, app: AppProgram, half_close: bool) -> Conv {
    Conv {
        name: name.to_string(),
        bytes,
        app,
        half_close,
    }
}

fn cat(parts: &[&[u8]]) -> Vec<u8> {
    parts.concat()
}

pub fn read_all_respond() -> AppProgram {
    AppProgram::uniform(ReqPlan {
        read: ReadPlan::all(512),
        finish: Finish::Respond(RespSpec::ok(5)),
    })
}

pub fn respond_unread() -> AppProgram {
    AppProgram::uniform(ReqPlan {
        read: ReadPlan::None,
        finish: Finish::Respond(RespSpec::ok(5)),
    })
}

pub fn corpus(include_long: bool) -> Vec<Conv> {
    let mut v = Vec::new();
    let ra = read_all_respond;
    // ---- plain requests and pipelines
    v.push(conv("get", get("/a"), ra(), false));
    v.push(conv("get-halfclose", get("/a"), ra(), true));
    v.push(conv("get-x3", cat(&[&get("/1"), &get("/2"), &get("/3")]), ra(), false));
    v.push(conv("head", b"HEAD /h HTTP/1.1\r\nHost: t\r\n\r\n".to_vec(), ra(), false));
    v.push(conv("http10", b"GET /old HTTP/1.0\r\n\r\n".to_vec(), ra(), false));
    v.push(conv("http10-keepalive-x2", cat(&[b"GET /o1 HTTP/1.0\r\nConnection: keep-alive\r\n\r\n", b"GET /o2 HTTP/1.0\r\n\r\n"]), ra(), false));
    v.push(conv("close-then-more", cat(&[b"GET /c HTTP/1.1\r\nConnection: close\r\n\r\n", &get("/never")]), ra(), false));
    v.push(conv("headers-many", b"GET /hm HTTP/1.1\r\nHost: t\r\nX-A: 1\r\nX-B:  two  \r\nX-C:\r\nX-A: 3\r\n\r\n".to_vec(), ra(), false));
    // ---- Content-Length bodies
    v.push(conv("post-cl0", post_cl("/p", b""), ra(), false));
    v.push(conv("post-cl5", post_cl("/p", b"hello"), ra(), false));
    v.push(conv("post-cl5-then-get", cat(&[&post_cl("/p", b"hello"), &get("/n")]), ra(), false));
    v.push(conv("post-cl5-unread-then-get", cat(&[&post_cl("/p", b"hello"), &get("/n")]), respond_unread(), false));
    v.push(conv("post-cl5-drop-then-get", cat(&[&post_cl("/p", b"hello"), &get("/n")]), AppProgram::uniform(ReqPlan { read: ReadPlan::None, finish: Finish::Drop }), false));
    v.push(conv("post-cl-bodylike-crlf", post_cl("/p", b"\r\n\r\nGET / HTTP/1.1\r\n\r\n"), ra(), false));
    // ---- chunked bodies
    v.push(conv("chunked-one", post_chunked("/c", b"hello world", &[11]), ra(), false));
    v.push(conv("chunked-three-then-get", cat(&[&post_chunked("/c", b"hello world", &[1, 4, 6]), &get("/n")]), ra(), false));
    v.push(conv("chunked-empty-then-get", cat(&[&post_chunked("/c", b"", &[]), &get("/n")]), ra(), false));
    {
        let mut m = b"POST /c HTTP/1.1\r\nHost: t\r\nTransfer-Encoding: chunked\r\n\r\n".to_vec();
        m.extend_from_slice(&chunked(b"0123456789abcdef0", &[16, 1], SizeSyntax::ExtPair));
        m.extend_from_slice(&get("/n"));
        v.push(conv("chunked-ext-upper", m, ra(), false));
    }
    v.push(conv("cl-and-chunked", cat(&[b"POST /b HTTP/1.1\r\nContent-Length: 3\r\nTransfer-Encoding: chunked\r\n\r\n", &chunked(b"abcdef", &[6], SizeSyntax::Lower), &get("/n")]), ra(), false));
    // ---- upgrade
    v.push(conv("upgrade-rest", cat(&[b"GET /ws HTTP/1.1\r\nConnection: upgrade\r\nUpgrade: x\r\n\r\n", b"raw bytes \r\n\r\n after"]), ra(), true));
    v.push(conv(
        "upgrade-call",
        cat(&[b"GET /ws HTTP/1.1\r\nConnection: Upgrade\r\nUpgrade: x\r\n\r\n", b"frames"]),
        AppProgram::uniform(ReqPlan { read: ReadPlan::None, finish: Finish::Upgrade }),
        true,
    ));
    // ---- expectation
    v.push(conv("expect-continue-read", cat(&[b"POST /e HTTP/1.1\r\nExpect: 100-continue\r\nContent-Length: 4\r\n\r\nbody", &get("/n")]), ra(), false));
    v.push(conv("expect-continue-unread", cat(&[b"POST /e HTTP/1.1\r\nExpect: 100-continue\r\nContent-Length: 4\r\n\r\nbody", &get("/n")]), respond_unread(), false));
    v.push(conv("expect-unsupported", cat(&[&get("/ok"), b"POST /e HTTP/1.1\r\nExpect: 200-ok\r\nContent-Length: 4\r\n\r\nbody"]), ra(), false));
    // ---- malformed heads (C10 classes) and smuggling syntax (C16 classes)
    v.push(conv("bad-request-line-2", cat(&[&get("/ok"), b"GET /x\r\n\r\n", &get("/never")]), ra(), false));
    v.push(conv("bad-version-token", b"GET /x HTTP/1.2\r\nHost: t\r\n\r\n".to_vec(), ra(), false));
    v.push(conv("bad-header-no-colon", cat(&[&get("/ok"), b"GET /x HTTP/1.1\r\nHost t\r\n\r\n"]), ra(), false));
    v.push(conv("bad-non-ascii", cat(&[&get("/ok"), b"GET /x HTTP/1.1\r\nX-A: \xff\r\n\r\n", &get("/never")]), ra(), false));
    v.push(conv("version-2.0", cat(&[&get("/ok"), b"GET /v HTTP/2.0\r\nHost: t\r\n\r\n", &get("/after")]), ra(), false));
    v.push(conv("ws-before-colon", cat(&[b"POST /s HTTP/1.1\r\nContent-Length : 5\r\n\r\nhello", &get("/sm")]), ra(), false));
    v.push(conv("ws-before-name", cat(&[b"POST /s HTTP/1.1\r\nHost: t\r\n Transfer-Encoding: chunked\r\n\r\n0\r\n\r\n", &get("/sm")]), ra(), false));
    v.push(conv("cl-invalid", cat(&[b"POST /s HTTP/1.1\r\nContent-Length: +5\r\n\r\nhello", &get("/sm")]), ra(), false));
    // ---- handler variants
    v.push(conv("pipeline-drop-middle", cat(&[&get("/1"), &get("/2"), &get("/3")]),
        AppProgram { plans: vec![ReqPlan::simple(), ReqPlan { read: ReadPlan::None, finish: Finish::Drop }, ReqPlan::simple()], recv: RecvStyle::Recv, deferred: false, thread_per_request: false }, false));
    v.push(conv("pipeline-raw-writer", cat(&[&get("/1"), &get("/2")]),
        AppProgram { plans: vec![ReqPlan { read: ReadPlan::None, finish: Finish::Writer { parts: raw_response_parts(0, 6, 3), flush: true } }, ReqPlan::simple()], recv: RecvStyle::Recv, deferred: false, thread_per_request: false }, false));
    v.push(conv("pipeline-deferred", cat(&[&get("/1"), &post_cl("/2", b"xy"), &get("/3")]),
        AppProgram { plans: vec![ReqPlan::simple()], recv: RecvStyle::Recv, deferred: true, thread_per_request: false }, true));
    v.push(conv("chunked-response", get("/big"),
        AppProgram::uniform(ReqPlan { read: ReadPlan::None, finish: Finish::Respond(RespSpec { status: 200, body_len: 300, declared: false, threshold: None, headers: 0 }) }), false));
    v.push(conv("incomplete-head", b"GET /inc HTTP/1.1\r\nHost: t\r\nX-Half".to_vec(), ra(), true));
    v.push(conv("incomplete-small-body", b"POST /inc HTTP/1.1\r\nContent-Length: 10\r\n\r\nabc".to_vec(), ra(), true));
    if include_long {
        // conversations crossing the 1024-byte read buffers
        v.push(conv("long-cl1024-then-get", cat(&[&post_cl("/l", &payload(1024)), &get("/n")]), ra(), false));
        v.push(conv("long-cl1025-then-get", cat(&[&post_cl("/l", &payload(1025)), &get("/n")]), ra(), false));
        v.push(conv("long-cl1025-unread-then-get", cat(&[&post_cl("/l", &payload(1025)), &get("/n")]), respond_unread(), false));
        v.push(conv("long-cl3000-partial", cat(&[&post_cl("/l", &payload(3000)), &get("/n")]),
            AppProgram { plans: vec![ReqPlan { read: ReadPlan::part(100, 1500), finish: Finish::Respond(RespSpec::ok(5)) }, ReqPlan::simple()], recv: RecvStyle::Recv, deferred: false, thread_per_request: false }, false));
        v.push(conv("long-chunked-2100", cat(&[&post_chunked("/l", &payload(2100), &[1000, 1024, 76]), &get("/n")]), ra(), false));
        v.push(conv("long-head-1100", cat(&[format!("GET /lh HTTP/1.1\r\nX-Long: {}\r\n\r\n", "v".repeat(1100)).as_bytes(), &get("/n")]), ra(), false));
        // alignments with the 1024-byte read buffer: the CR that ends a header line, and the
        // blank line that ends the head, at every offset around a refill boundary; what
        // follows (a small body, another request) shows whether the reader stayed in step
        for boundary in [1024usize, 2048] {
            for shift in 0..5usize {
                // the CR of the X-Pad line at offset boundary - 3 + shift
                let pre = "POST /al HTTP/1.1\r\nHost: t\r\nContent-Length: 4\r\nX-Pad: ";
                let want_cr_at = boundary - 3 + shift;
                let pad = want_cr_at - pre.len();
                let mut b = format!("{}{}\r\nX-Next: v\r\n\r\nbody", pre, "p".repeat(pad)).into_bytes();
                b.extend_from_slice(&get("/n"));
                v.push(conv(if boundary == 1024 { ["align1024-cr-3", "align1024-cr-2", "align1024-cr-1", "align1024-cr+0", "align1024-cr+1"][shift] } else { ["align2048-cr-3", "align2048-cr-2", "align2048-cr-1", "align2048-cr+0", "align2048-cr+1"][shift] }, b, ra(), false));
                // the blank line (CR LF CR LF) starting at offset boundary - 3 + shift
                let pre = "GET /ab HTTP/1.1\r\nHost: t\r\nX-Pad: ";
                let pad = want_cr_at - pre.len();
                let mut b = format!("{}{}\r\n\r\n", pre, "q".repeat(pad)).into_bytes();
                b.extend_from_slice(&post_cl("/n", b"xy"));
                v.push(conv(if boundary == 1024 { ["align1024-end-3", "align1024-end-2", "align1024-end-1", "align1024-end+0", "align1024-end+1"][shift] } else { ["align2048-end-3", "align2048-end-2", "align2048-end-1", "align2048-end+0", "align2048-end+1"][shift] }, b, ra(), false));
            }
        }
    }
    v
}

pub fn scenario_for(c: &Conv, segments: Vec<Vec<u8>>) -> Scenario {
    let mut sc = Scenario::one_conn(segments, c.app.clone());
    if c.half_close {
        sc.script.push((0, Step::CloseWrite));
        sc.script.push((0, Step::Settle));
    }
    if c.app.deferred {
        sc.script.push((0, Step::AppGo));
        sc.script.push((0, Step::Settle));
    }
    sc
}

/// Splits `bytes` at the given (sorted, distinct, interior) offsets.
pub fn split_at(bytes: &[u8], cuts: &[usize]) -> Vec<Vec<u8>> {
    let mut out = Vec::new();
    let mut p = 0;
    for &c in cuts {
        out.push(bytes[p..c].to_vec());
        p = c;
    }
    out.push(bytes[p..].to_vec());
    out
}
