//! Builders for client byte streams shared by the scenario-based checks.

pub fn payload(n: usize) -> Vec<u8> {
    // bytes that would be mistaken for protocol syntax if a boundary slipped
    let pat = b"GET /x HTTP/1.1\r\n\r\n0\r\n\r\n5\r\nab";
    (0..n).map(|i| pat[i % pat.len()]).collect()
}

#[derive(Clone, Copy, Debug, PartialEq, Eq)]
pub enum SizeSyntax {
    Lower,
    Upper,
    Zero1,
    Zero3,
    ExtName,
    ExtPair,
    /// several extensions, one with a quoted value containing ';', '=' and blanks
    ExtQuoted,
    /// a quoted extension value with an obs-text byte that is not UTF-8 (0xE9)
    ExtHighByte,
    /// a quoted extension value with a two-byte UTF-8 sequence
    ExtUtf8,
    /// an extension of 1100 bytes (longer than the connection's read buffer)
    ExtLong,
}

pub const ALL_SYNTAX: [SizeSyntax; 10] = [
    SizeSyntax::Lower,
    SizeSyntax::Upper,
    SizeSyntax::Zero1,
    SizeSyntax::Zero3,
    SizeSyntax::ExtName,
    SizeSyntax::ExtPair,
    SizeSyntax::ExtQuoted,
    SizeSyntax::ExtHighByte,
    SizeSyntax::ExtUtf8,
    SizeSyntax::ExtLong,
];

pub fn size_line(n: usize, syn: SizeSyntax) -> Vec<u8> {
    match syn {
        SizeSyntax::Lower => format!("{:x}", n).into_bytes(),
        SizeSyntax::Upper => format!("{:X}", n).into_bytes(),
        SizeSyntax::Zero1 => format!("0{:x}", n).into_bytes(),
        SizeSyntax::Zero3 => format!("000{:X}", n).into_bytes(),
        SizeSyntax::ExtName => format!("{:x};x", n).into_bytes(),
        SizeSyntax::ExtPair => format!("{:x};a=b", n).into_bytes(),
        SizeSyntax::ExtQuoted => format!("{:x};a=1;q=\"x; y=z\";last", n).into_bytes(),
        SizeSyntax::ExtHighByte => [format!("{:x};who=\"caf", n).as_bytes(), &[0xe9u8][..], b"\""].concat(),
        SizeSyntax::ExtUtf8 => [format!("{:x};who=\"caf", n).as_bytes(), &[0xc3u8, 0xa9][..], b"\""].concat(),
        SizeSyntax::ExtLong => format!("{:x};long={}", n, "e".repeat(1100)).into_bytes(),
    }
}

/// Encodes `body` as chunks of the given sizes (which must sum to body.len()).
pub fn chunked(body: &[u8], sizes: &[usize], syn: SizeSyntax) -> Vec<u8> {
    let mut out = Vec::new();
    let mut p = 0;
    for &s in sizes {
        if s == 0 {
            continue;
        }
        out.extend_from_slice(&size_line(s, syn));
        out.extend_from_slice(b"\r\n");
        out.extend_from_slice(&body[p..p + s]);
        out.extend_from_slice(b"\r\n");
        p += s;
    }
    assert_eq!(p, body.len());
    // the new extension variants also decorate the last-chunk line
    let last = match syn {
        SizeSyntax::Upper | SizeSyntax::Lower | SizeSyntax::ExtQuoted | SizeSyntax::ExtHighByte | SizeSyntax::ExtUtf8 | SizeSyntax::ExtLong => syn,
        _ => SizeSyntax::Lower,
    };
    out.extend_from_slice(&size_line(0, last));
    out.extend_from_slice(b"\r\n\r\n");
    out
}

/// all compositions of n (ordered ways to write n as a sum of positive integers)
pub fn compositions(n: usize) -> Vec<Vec<usize>> {
    if n == 0 {
        return vec![vec![]];
    }
    let mut out = Vec::new();
    for mask in 0..(1u32 << (n - 1)) {
        let mut cur = 1;
        let mut v = Vec::new();
        for i in 0..n - 1 {
            if mask & (1 << i) != 0 {
                v.push(cur);
                cur = 1;
            } else {
                cur += 1;
            }
        }
        v.push(cur);
        out.push(v);
    }
    out
}

/// named chunkings of a body of n bytes
pub fn chunkings(n: usize, thorough: bool) -> Vec<(String, Vec<usize>)> {
    let mut v: Vec<(String, Vec<usize>)> = Vec::new();
    if n == 0 {
        return vec![("empty".into(), vec![])];
    }
    v.push(("one".into(), vec![n]));
    if n >= 2 && n <= 2049 {
        v.push(("bytewise".into(), vec![1; n]));
    }
    if n >= 2 {
        v.push(("cut1".into(), vec![1, n - 1]));
        v.push(("cutlast".into(), vec![n - 1, 1]));
    }
    if n > 1024 {
        v.push(("cut1024".into(), vec![1024, n - 1024]));
    }
    if n > 8192 && thorough {
        let mut s = vec![8192; n / 8192];
        if n % 8192 != 0 {
            s.push(n % 8192);
        }
        v.push(("8k".into(), s));
    }
    if n >= 3 && thorough {
        v.push(("thirds".into(), vec![n / 3, n / 3, n - 2 * (n / 3)]));
    }
    if n > 2048 && thorough {
        // chunks that exactly fill a 1024-byte buffer, the last one arbitrary
        let mut s = vec![1024; n / 1024];
        if n % 1024 != 0 {
            s.push(n % 1024);
        }
        v.push(("1k".into(), s));
        // a last chunk of exactly 1024 bytes
        v.push(("last1024".into(), vec![n - 1024, 1024]));
    }
    v
}

pub fn get(path: &str) -> Vec<u8> {
    format!("GET {} HTTP/1.1\r\nHost: t\r\n\r\n", path).into_bytes()
}

pub fn post_cl(path: &str, body: &[u8]) -> Vec<u8> {
    let mut v = format!("POST {} HTTP/1.1\r\nHost: t\r\nContent-Length: {}\r\n\r\n", path, body.len()).into_bytes();
    v.extend_from_slice(body);
    v
}

pub fn post_chunked(path: &str, body: &[u8], sizes: &[usize]) -> Vec<u8> {
    let mut v = format!("POST {} HTTP/1.1\r\nHost: t\r\nTransfer-Encoding: chunked\r\n\r\n", path).into_bytes();
    v.extend_from_slice(&chunked(body, sizes, SizeSyntax::Lower));
    v
}


// ------------------------------------------------------------------------- histories
// A "history" is a run of plain exchanges (GET /pre<i>, answered) on the connection before
// the conversation proper: decisions must not depend on how much a connection has carried.

pub fn history(h: usize) -> Vec<u8> {
    let mut v = Vec::new();
    for i in 0..h {
        v.extend_from_slice(&get(&format!("/pre{}", i)));
    }
    v
}

/// Splits a byte stream that starts with `history(h)` into [history, rest] (two segments, so
/// that the runner lets the history be answered before the rest is sent); a stream without
/// such a prefix stays one segment.
pub fn split_history(bytes: &[u8]) -> Vec<Vec<u8>> {
    let mut p = 0;
    let mut i = 0;
    loop {
        let g = get(&format!("/pre{}", i));
        if bytes[p..].starts_with(&g) {
            p += g.len();
            i += 1;
        } else {
            break;
        }
    }
    if p == 0 || p == bytes.len() {
        vec![bytes.to_vec()]
    } else {
        vec![bytes[..p].to_vec(), bytes[p..].to_vec()]
    }
}

/// history lengths: around the ceilings a maintainer might introduce
pub fn history_lengths(thorough: bool) -> Vec<usize> {
    if thorough {
        vec![63, 64, 65, 99, 100, 101, 127, 128, 129, 255, 256, 257, 999, 1000, 1001, 1023, 1024, 1025, 4097]
    } else {
        vec![64, 100, 1024]
    }
}

/// number of history exchanges a stream starts with
pub fn history_len(bytes: &[u8]) -> usize {
    let mut p = 0;
    let mut i = 0;
    loop {
        let g = get(&format!("/pre{}", i));
        if bytes[p..].starts_with(&g) {
            p += g.len();
            i += 1;
        } else {
            return i;
        }
    }
}


// ------------------------------------------------------------------------- noise headers
// Request headers that look as if they could matter to a server but are no input to any
// decision the statements describe: adding them to a request must change nothing.

pub const NOISE_HEADERS: [&[&str]; 8] = [
    &[],
    &["Proxy-Connection: keep-alive"],
    &["Proxy-Connection: close"],
    &["Keep-Alive: timeout=5, max=100"],
    &["Upgrade: h2c"],
    &["X-Connection: close", "Connection-Hint: keep-alive", "Pragma: no-cache"],
    &["Content-Encoding: chunked", "Accept-Encoding: chunked, identity;q=0", "Trailer: Expires"],
    &["Content-Type: multipart/form-data; boundary=x", "Range: bytes=0-", "If-Match: *", "Via: 1.0 p", "X-Forwarded-For: 10.0.0.1"],
];

pub fn noise_lines(k: usize) -> String {
    NOISE_HEADERS[k % NOISE_HEADERS.len()].iter().map(|l| format!("{}\r\n", l)).collect()
}
