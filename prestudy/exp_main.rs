use std::io::{Read, Write};
use std::net::{Shutdown, TcpStream};
use std::time::Duration;
use tiny_http::{Response, Server};

fn client(server: &Server) -> TcpStream {
    let c = TcpStream::connect(server.server_addr().to_ip().unwrap()).unwrap();
    c.set_read_timeout(Some(Duration::from_millis(1500))).unwrap();
    c
}
fn read_all(c: &mut TcpStream) -> (String, bool) {
    let mut out = Vec::new();
    let mut buf = [0u8; 4096];
    loop {
        match c.read(&mut buf) {
            Ok(0) => return (String::from_utf8_lossy(&out).into_owned(), true),
            Ok(n) => out.extend_from_slice(&buf[..n]),
            Err(_) => return (String::from_utf8_lossy(&out).into_owned(), false),
        }
    }
}

fn main() {
    let which = std::env::args().nth(1).unwrap_or_default();
    let server = std::sync::Arc::new(Server::http("127.0.0.1:0").unwrap());
    match which.as_str() {
        "505" => {
            let mut c = client(&server);
            write!(c, "GET /a HTTP/2.0\r\nHost: x\r\n\r\nGET /b HTTP/1.1\r\nConnection: close\r\n\r\n").unwrap();
            let s2 = server.clone();
            std::thread::spawn(move || loop {
                let rq = s2.recv().unwrap();
                println!("delivered {}", rq.url());
                rq.respond(Response::from_string("ok")).unwrap();
            });
            let (s, eof) = read_all(&mut c);
            println!("eof={} resp={:?}", eof, s);
        }
        "chunked_unread" => {
            let mut c = client(&server);
            write!(c, "POST /a HTTP/1.1\r\nTransfer-Encoding: chunked\r\n\r\n5\r\nhello\r\n0\r\n\r\nGET /b HTTP/1.1\r\nConnection: close\r\n\r\n").unwrap();
            let s2 = server.clone();
            std::thread::spawn(move || loop {
                let rq = s2.recv().unwrap();
                println!("delivered {} {}", rq.method(), rq.url());
                rq.respond(Response::from_string("ok")).unwrap();
            });
            let (s, eof) = read_all(&mut c);
            println!("eof={} resp={:?}", eof, s);
        }
        "zero_write" => {
            let mut c = client(&server);
            write!(c, "GET /1 HTTP/1.1\r\n\r\nGET /2 HTTP/1.1\r\n\r\nGET /3 HTTP/1.1\r\nConnection: close\r\n\r\n").unwrap();
            let r1 = server.recv().unwrap();
            let r2 = server.recv().unwrap();
            let r3 = server.recv().unwrap();
            drop(r2.into_writer());
            let t = std::thread::spawn(move || { r3.respond(Response::from_string("three")).unwrap(); });
            std::thread::sleep(Duration::from_millis(300));
            r1.respond(Response::from_string("one")).unwrap();
            t.join().unwrap();
            let (s, eof) = read_all(&mut c);
            println!("eof={} resp={:?}", eof, s);
        }
        "huge_cl" => {
            let mut c = client(&server);
            write!(c, "POST /a HTTP/1.1\r\nContent-Length: 99999999999999\r\n\r\nabc").unwrap();
            let rq = server.recv().unwrap();
            println!("delivered {} len={:?}", rq.url(), rq.body_length());
            c.shutdown(Shutdown::Write).unwrap();
            rq.respond(Response::from_string("ok")).unwrap();
            let (s, eof) = read_all(&mut c);
            println!("eof={} resp={:?}", eof, s);
        }

        "te_nan" => {
            let mut c = client(&server);
            let mut te = String::new();
            for i in 0..60 { te.push_str(&format!("x{};q={}, ", i, if i%3==0 {"NaN".to_string()} else {format!("0.{}", (i*7)%10)})); }
            te.push_str("chunked;q=0.5");
            write!(c, "GET /a HTTP/1.1\r\nTE: {}\r\nConnection: close\r\n\r\n", te).unwrap();
            let rq = server.recv().unwrap();
            let r = std::panic::catch_unwind(std::panic::AssertUnwindSafe(|| rq.respond(Response::from_string("ok"))));
            println!("respond panicked={}", r.is_err());
            let (s, eof) = read_all(&mut c);
            println!("eof={} resp={:?}", eof, s);
        }
        "lead_ws" => {
            let mut c = client(&server);
            write!(c, "POST /a HTTP/1.1\r\nHost: x\r\n Transfer-Encoding: chunked\r\nContent-Length: 3\r\n\r\n0\r\n\r\nGET /smuggled HTTP/1.1\r\nConnection: close\r\n\r\n").unwrap();
            let s2 = server.clone();
            std::thread::spawn(move || loop {
                let mut rq = s2.recv().unwrap();
                let mut b = String::new(); rq.as_reader().read_to_string(&mut b).ok();
                println!("delivered {} {} headers={:?} body={:?}", rq.method(), rq.url(), rq.headers().iter().map(|h| h.to_string()).collect::<Vec<_>>(), b);
                rq.respond(Response::from_string("ok")).unwrap();
            });
            let (s, eof) = read_all(&mut c);
            println!("eof={} resp={:?}", eof, s.lines().filter(|l| l.starts_with("HTTP/")).collect::<Vec<_>>());
        }
        "bad_cl" => {
            for v in ["+5", "5, 5", "abc", "99999999999999999999999", "", "5 5", "0x5", "-0"] {
                let mut c = client(&server);
                write!(c, "POST /a HTTP/1.1\r\nContent-Length: {}\r\n\r\nGET /x HTTP/1.1\r\nConnection: close\r\n\r\n", v).unwrap();
                c.shutdown(Shutdown::Write).unwrap();
                let s2 = server.clone();
                let h = std::thread::spawn(move || { let mut v = vec![]; while let Ok(Some(mut rq)) = s2.recv_timeout(Duration::from_millis(300)) {
                    let mut b = String::new(); rq.as_reader().read_to_string(&mut b).ok();
                    v.push(format!("{} {} len={:?} body={:?}", rq.method(), rq.url(), rq.body_length(), b));
                    rq.respond(Response::from_string("ok")).unwrap();
                } v });
                let (s, eof) = read_all(&mut c);
                println!("CL={:?}: delivered={:?} eof={} statuses={:?}", v, h.join().unwrap(), eof, s.lines().filter(|l| l.starts_with("HTTP/")).collect::<Vec<_>>());
            }
        }
        "pool" => {
            let n: usize = std::env::args().nth(2).map(|s| s.parse().unwrap()).unwrap_or(8);
            std::thread::sleep(Duration::from_millis(200));
            let addr = server.server_addr().to_ip().unwrap();
            let mut cs: Vec<TcpStream> = (0..n).map(|_| TcpStream::connect(addr).unwrap()).collect();
            for (i, c) in cs.iter_mut().enumerate() { write!(c, "GET /{} HTTP/1.1\r\nHost: x\r\n\r\n", i).unwrap(); }
            let mut got = vec![];
            while let Ok(Some(rq)) = server.recv_timeout(Duration::from_millis(1000)) { got.push(rq.url().to_string()); rq.respond(Response::from_string("ok")).unwrap(); }
            got.sort();
            println!("n={} delivered {} : {:?}", n, got.len(), got);
        }

        "pool_loop" => {
            let n: usize = std::env::args().nth(2).map(|s| s.parse().unwrap()).unwrap_or(8);
            let iters: usize = std::env::args().nth(3).map(|s| s.parse().unwrap()).unwrap_or(100);
            let mut bad = 0;
            for it in 0..iters {
                let server = Server::http("127.0.0.1:0").unwrap();
                std::thread::sleep(Duration::from_millis(30));
                let addr = server.server_addr().to_ip().unwrap();
                let hs: Vec<_> = (0..n).map(|i| std::thread::spawn(move || { let mut c = TcpStream::connect(addr).unwrap(); write!(c, "GET /{} HTTP/1.1\r\nHost: x\r\n\r\n", i).unwrap(); c })).collect();
                let cs: Vec<TcpStream> = hs.into_iter().map(|h| h.join().unwrap()).collect();
                let mut got = vec![];
                while let Ok(Some(rq)) = server.recv_timeout(Duration::from_millis(300)) { got.push(rq.url().to_string()); rq.respond(Response::from_string("ok")).unwrap(); }
                if got.len() != n { bad += 1; got.sort(); println!("iter {} delivered only {}/{}: {:?}", it, got.len(), n, got); }
                drop(cs);
            }
            println!("bad iterations: {}/{}", bad, iters);
        }

        "rst" => {
            use std::os::unix::io::AsRawFd;
            let iters: usize = std::env::args().nth(2).map(|s| s.parse().unwrap()).unwrap_or(200);
            let addr = server.server_addr().to_ip().unwrap();
            let s2 = server.clone();
            std::thread::spawn(move || loop { match s2.recv() { Ok(rq) => { let _ = rq.respond(Response::from_string("ok")); } Err(e) => { println!("recv err {:?}", e); break; } } });
            for _ in 0..iters {
                // burst so that the accept thread lags behind
                let mut v = vec![];
                for _ in 0..20 {
                    let mut c = TcpStream::connect(addr).unwrap();
                    write!(c, "GET /r HTTP/1.1\r\nHost: x\r\n\r\n").unwrap();
                    let l = libc::linger { l_onoff: 1, l_linger: 0 };
                    unsafe { libc::setsockopt(c.as_raw_fd(), libc::SOL_SOCKET, libc::SO_LINGER, &l as *const _ as *const libc::c_void, std::mem::size_of::<libc::linger>() as u32); }
                    v.push(c);
                }
                drop(v);
            }
            std::thread::sleep(Duration::from_millis(300));
            // is the server still alive?
            let mut c = client(&server);
            write!(c, "GET /alive HTTP/1.1\r\nConnection: close\r\n\r\n").unwrap();
            let (s, eof) = read_all(&mut c);
            println!("alive check: eof={} resp_starts={:?}", eof, s.lines().next());
        }

        "lostwake" => {
            use std::sync::mpsc;
            use std::time::Instant;
            let iters: usize = std::env::args().nth(2).map(|s| s.parse().unwrap()).unwrap_or(300);
            let addr = server.server_addr().to_ip().unwrap();
            let mut hits = 0;
            for it in 0..iters {
                let t_ms = 40u64;
                let off_us = 39_000 + (it as u64 * 37) % 1000; // 39.0 .. 40.0 ms
                let (tx1, rx1) = mpsc::channel();
                let (tx2, rx2) = mpsc::channel();
                let mut c = TcpStream::connect(addr).unwrap();
                std::thread::sleep(Duration::from_millis(5));
                let s1 = server.clone();
                let t0 = Instant::now();
                let h1 = std::thread::spawn(move || { let r = s1.recv_timeout(Duration::from_millis(t_ms)); tx1.send(match r { Ok(Some(rq)) => { rq.respond(Response::from_string("a")).ok(); true } _ => false }).unwrap(); });
                std::thread::sleep(Duration::from_millis(3));
                let s2 = server.clone();
                let h2 = std::thread::spawn(move || { let r = s2.recv(); tx2.send(match r { Ok(rq) => { rq.respond(Response::from_string("b")).ok(); true } _ => false }).unwrap(); });
                while t0.elapsed() < Duration::from_micros(off_us) { std::hint::spin_loop(); }
                write!(c, "GET /x HTTP/1.1\r\nHost: x\r\n\r\n").unwrap();
                let r1 = rx1.recv().unwrap();
                let r2 = rx2.recv_timeout(Duration::from_millis(200));
                if !r1 && r2.is_err() {
                    hits += 1;
                    println!("iter {} off={}us: timed receiver returned empty, blocking receiver still blocked, request left queued", it, off_us);
                    // release the stuck receiver: it will first get the queued request
                }
                if r2.is_err() { server.unblock(); let _ = rx2.recv(); }
                h1.join().unwrap(); h2.join().unwrap();
                // drain anything left
                while let Ok(Some(rq)) = server.try_recv() { rq.respond(Response::from_string("c")).ok(); }
                drop(c);
            }
            println!("lost wake-ups: {}/{}", hits, iters);
        }

        "battery" => {
            // each case: (name, bytes, half_close)
            let big = "x".repeat(3000);
            let cases: Vec<(&str, String)> = vec![
                ("close-then-more", "GET /1 HTTP/1.1\r\nConnection: close\r\n\r\nGET /2 HTTP/1.1\r\n\r\n".into()),
                ("10-keepalive", "GET /1 HTTP/1.0\r\nConnection: Keep-Alive\r\n\r\nGET /2 HTTP/1.0\r\n\r\nGET /3 HTTP/1.0\r\n\r\n".into()),
                ("10-other", "GET /1 HTTP/1.0\r\nConnection: foo\r\n\r\nGET /2 HTTP/1.0\r\n\r\n".into()),
                ("11-list", "GET /1 HTTP/1.1\r\nConnection: foo, CLOSE\r\n\r\nGET /2 HTTP/1.1\r\n\r\n".into()),
                ("11-keep", "GET /1 HTTP/1.1\r\nConnection: foo\r\n\r\nGET /2 HTTP/1.1\r\nConnection: close\r\n\r\n".into()),
                ("nonascii", "GET /1 HTTP/1.1\r\n\r\nGET /\u{e9} HTTP/1.1\r\n\r\nGET /3 HTTP/1.1\r\n\r\n".into()),
                ("ver12", "GET /1 HTTP/1.1\r\n\r\nGET /2 HTTP/1.2\r\n\r\nGET /3 HTTP/1.1\r\n\r\n".into()),
                ("lowerver", "GET /2 http/1.1\r\n\r\n".into()),
                ("twofields", "GET /2\r\n\r\n".into()),
                ("nocolon", "GET /1 HTTP/1.1\r\nHost x\r\n\r\nGET /3 HTTP/1.1\r\n\r\n".into()),
                ("expect-case", "POST /1 HTTP/1.1\r\nExpect: 100-Continue\r\nContent-Length: 2\r\n\r\nhiGET /2 HTTP/1.1\r\nConnection: close\r\n\r\n".into()),
                ("expect-bad", "GET /0 HTTP/1.1\r\n\r\nPOST /1 HTTP/1.1\r\nExpect: 100-continue, x\r\nContent-Length: 2\r\n\r\nhiGET /2 HTTP/1.1\r\n\r\n".into()),
                ("cl+te", "POST /1 HTTP/1.1\r\nContent-Length: 3\r\nTransfer-Encoding: chunked\r\n\r\n2\r\nhi\r\n0\r\n\r\nGET /2 HTTP/1.1\r\nConnection: close\r\n\r\n".into()),
                ("chunk-ext", "POST /1 HTTP/1.1\r\ntransfer-encoding: chunked\r\n\r\n0002;a=b\r\nhi\r\nA ;x\r\n0123456789\r\n000\r\n\r\nGET /2 HTTP/1.1\r\nConnection: close\r\n\r\n".into()),
                ("cl-big-unread", format!("POST /1 HTTP/1.1\r\nContent-Length: 3000\r\n\r\n{}GET /2 HTTP/1.1\r\nConnection: close\r\n\r\n", big)),
                ("upgrade", "GET /1 HTTP/1.1\r\nConnection: Upgrade\r\nUpgrade: foo\r\n\r\nRAWBYTES".into()),
                ("http09", "GET /1 HTTP/0.9\r\n\r\nGET /2 HTTP/1.1\r\nConnection: close\r\n\r\n".into()),
                ("emptyline-first", "\r\nGET /1 HTTP/1.1\r\nConnection: close\r\n\r\n".into()),
            ];
            for (name, bytes) in cases {
                let mut c = client(&server);
                c.write_all(bytes.as_bytes()).unwrap();
                c.shutdown(Shutdown::Write).unwrap();
                let s2 = server.clone();
                let readbody = name != "cl-big-unread";
                let h = std::thread::spawn(move || { let mut v = vec![]; while let Ok(Some(mut rq)) = s2.recv_timeout(Duration::from_millis(400)) {
                    let mut b = Vec::new(); if readbody { rq.as_reader().read_to_end(&mut b).ok(); }
                    v.push(format!("{} {} v{} len={:?} body={:?}", rq.method(), rq.url(), rq.http_version(), rq.body_length(), String::from_utf8_lossy(&b[..b.len().min(20)])));
                    let u = rq.url().to_string();
                    rq.respond(Response::from_string(format!("<{}>", u))).unwrap();
                } v });
                let (s, eof) = read_all(&mut c);
                let mut st = vec![]; for (i, _) in s.match_indices("HTTP/1.") { st.push(s[i..].chars().take(12).collect::<String>()); }
                println!("{:16} delivered={:?}\n{:16} eof={} statuses={:?}", name, h.join().unwrap(), "", eof, st);
            }
        }
        _ => {}
    }
}
