// Harness-facing control surface.

pub use super::core::{run, AltKind, Decision, End, PanicRec, RunCfg, RunResult};
use super::core::{sched, with_state, Op};
use std::time::Duration;

/// Blocks until no other controlled thread can run (quiescence).  No virtual time passes.
pub fn settle() {
    sched(Op::Settle, |_, _| ());
}

/// Lets virtual time pass: returns when the clock has reached now + d.
pub fn sleep(d: Duration) {
    super::thread::sleep(d);
}

/// Opens / closes the explored window: decisions taken while it is closed are replayed
/// but never branched on.
pub fn window(open: bool) {
    with_state(|st, _| st.window_open = open);
}

/// Offers spurious condition-variable wake-ups (a wait returning without notification or
/// timeout, which std permits) and late wake-ups (a notified timed wait that gets the
/// processor only after its deadline, yet reports "not timed out") as 1-cost deviations
/// while the window is open.
pub fn spurious(on: bool) {
    with_state(|st, _| st.spurious = on);
}

/// Server-side socket handles of the in-memory network that are still alive.
pub fn open_server_handles() -> usize {
    with_state(|st, _| st.net.open_server_handles())
}

pub fn note(s: String) {
    with_state(|st, _| st.notes.push(s));
}

pub fn clock_ns() -> u64 {
    with_state(|st, _| st.clock)
}

/// Number of controlled threads that have not finished (including the caller).
pub fn live_threads() -> usize {
    with_state(|st, _| st.live_threads())
}

pub fn blocked_report() -> Vec<String> {
    with_state(|st, me| {
        let mut v = Vec::new();
        for (t, th) in st.threads.iter().enumerate() {
            if !th.finished && t != me {
                v.push(format!("t{} {} waits in {:?}", t, th.name, th.pending));
            }
        }
        v
    })
}

pub fn set_name(name: &str) {
    with_state(|st, me| st.threads[me].name = name.to_string());
}

pub fn points() -> u64 {
    with_state(|st, _| st.points)
}

/// How many condvar waits the calling thread has entered so far.
pub fn my_blocking_ops() -> u64 {
    with_state(|st, me| st.threads[me].blocking_ops)
}

/// Names and pending operations of all unfinished threads except the caller.
pub fn blocked_threads() -> Vec<(usize, String, String)> {
    with_state(|st, me| {
        let mut v = Vec::new();
        for (t, th) in st.threads.iter().enumerate() {
            if !th.finished && t != me {
                v.push((t, th.name.clone(), format!("{:?}", th.pending)));
            }
        }
        v
    })
}
