// In-memory model of stream sockets (listener, connection = two pipes of segments).
// Kept bound to the kernel's behaviour by the conformance run (DESIGN 6.5).

use super::core::{sched, try_with_state, with_state, Obj, Op, State};
use std::collections::VecDeque;
use std::io::{self, ErrorKind};
use std::net::{Shutdown, SocketAddr};

#[derive(Clone, Copy, Debug, PartialEq, Eq)]
pub enum CutKind {
    /// the client closed its socket (FIN both ways; later server writes fail with EPIPE)
    Close,
    /// the client reset the connection
    Reset,
}

#[derive(Clone, Copy, Debug, PartialEq, Eq)]
pub enum PeerKind {
    /// TCP-like: the peer has a socket address
    Ip(SocketAddr),
    /// UNIX-like: unnamed peer
    Unnamed,
}

#[derive(Clone, Debug)]
pub struct ConnectOpts {
    pub peer: PeerKind,
    /// how many response bytes the client side buffers while nobody drains it
    pub s2c_capacity: Option<usize>,
    /// the client vanishes once the server has written exactly this many bytes
    pub s2c_cut: Option<(u64, CutKind)>,
}

impl Default for ConnectOpts {
    fn default() -> ConnectOpts {
        ConnectOpts {
            peer: PeerKind::Ip(SocketAddr::from(([127, 0, 0, 1], 40000))),
            s2c_capacity: None,
            s2c_cut: None,
        }
    }
}

#[derive(Default)]
pub struct Pipe {
    pub segs: VecDeque<Vec<u8>>,
    pub writer_closed: bool,
    pub reader_closed: bool,
    pub reset: bool,
    pub capacity: Option<usize>,
    pub cut: Option<(u64, CutKind)>,
    pub written: u64,
    pub read: u64,
    pub writes: u64,
}

impl Pipe {
    fn buffered(&self) -> usize {
        self.segs.iter().map(|s| s.len()).sum()
    }
}

pub struct ConnSt {
    /// [0] client -> server, [1] server -> client
    pub pipes: [Pipe; 2],
    pub server_handles: usize,
    pub peer: PeerKind,
    pub listener: Obj,
}

pub struct ListenerSt {
    pub open: bool,
    pub backlog: VecDeque<usize>,
    pub accepted: u64,
}

#[derive(Default)]
pub struct NetState {
    pub listeners: Vec<ListenerSt>,
    pub conns: Vec<ConnSt>,
}

impl NetState {
    /// Server-side stream handles (clones included) that have not been dropped.
    pub fn open_server_handles(&self) -> usize {
        self.conns.iter().map(|c| c.server_handles).sum()
    }

    pub fn accept_ready(&self, l: Obj) -> bool {
        !self.listeners[l].backlog.is_empty()
    }
    fn pipe(&self, p: Obj) -> &Pipe {
        &self.conns[p / 2].pipes[p % 2]
    }
    fn pipe_mut(&mut self, p: Obj) -> &mut Pipe {
        &mut self.conns[p / 2].pipes[p % 2]
    }
    pub fn readable(&self, p: Obj) -> bool {
        let q = self.pipe(p);
        !q.segs.is_empty() || q.writer_closed || q.reset || q.reader_closed
    }
    pub fn writable(&self, p: Obj) -> bool {
        let q = self.pipe(p);
        match q.capacity {
            None => true,
            Some(c) => q.buffered() < c || q.reset || q.reader_closed || q.writer_closed,
        }
    }

    fn do_read(&mut self, p: Obj, buf: &mut [u8]) -> io::Result<usize> {
        let q = self.pipe_mut(p);
        if q.reader_closed {
            return Ok(0);
        }
        if buf.is_empty() {
            return Ok(0);
        }
        if let Some(front) = q.segs.front_mut() {
            // exactly one segment per read: the harness decides the segmentation
            let n = front.len().min(buf.len());
            buf[..n].copy_from_slice(&front[..n]);
            if n == front.len() {
                q.segs.pop_front();
            } else {
                front.drain(..n);
            }
            q.read += n as u64;
            return Ok(n);
        }
        if q.reset {
            return Err(io::Error::new(ErrorKind::ConnectionReset, "connection reset"));
        }
        Ok(0)
    }

    fn do_write(&mut self, p: Obj, buf: &[u8]) -> io::Result<usize> {
        let conn = p / 2;
        let q = self.pipe_mut(p);
        if q.writer_closed {
            return Err(io::Error::new(ErrorKind::BrokenPipe, "write after shutdown"));
        }
        if q.reset {
            return Err(io::Error::new(ErrorKind::ConnectionReset, "connection reset"));
        }
        if q.reader_closed {
            return Err(io::Error::new(ErrorKind::BrokenPipe, "peer closed"));
        }
        if buf.is_empty() {
            return Ok(0);
        }
        let mut n = buf.len();
        if let Some(c) = q.capacity {
            let room = c.saturating_sub(q.buffered());
            n = n.min(room.max(1));
        }
        let mut cut_now = None;
        if let Some((j, kind)) = q.cut {
            if q.written + n as u64 >= j {
                n = (j - q.written) as usize;
                cut_now = Some(kind);
                q.cut = None;
            }
        }
        if n > 0 {
            q.segs.push_back(buf[..n].to_vec());
            q.written += n as u64;
            q.writes += 1;
        }
        if let Some(kind) = cut_now {
            self.client_vanishes(conn, kind);
            if n == 0 {
                return Err(match kind {
                    CutKind::Close => io::Error::new(ErrorKind::BrokenPipe, "peer closed"),
                    CutKind::Reset => {
                        io::Error::new(ErrorKind::ConnectionReset, "connection reset")
                    }
                });
            }
        }
        Ok(n)
    }

    fn client_vanishes(&mut self, conn: usize, kind: CutKind) {
        let c = &mut self.conns[conn];
        match kind {
            CutKind::Close => {
                c.pipes[0].writer_closed = true;
                c.pipes[1].reader_closed = true;
            }
            CutKind::Reset => {
                c.pipes[0].reset = true;
                c.pipes[1].reset = true;
            }
        }
    }
}

// ------------------------------------------------------------------------- listener

pub struct MemListener {
    id: Obj,
}

#[derive(Clone, Debug, PartialEq, Eq)]
pub struct MemAddr {
    id: Obj,
}

impl std::fmt::Display for MemAddr {
    fn fmt(&self, f: &mut std::fmt::Formatter<'_>) -> std::fmt::Result {
        write!(f, "mem:{}", self.id)
    }
}

impl MemListener {
    pub fn bind() -> MemListener {
        let id = with_state(|st, _| {
            st.net.listeners.push(ListenerSt {
                open: true,
                backlog: VecDeque::new(),
                accepted: 0,
            });
            st.net.listeners.len() - 1
        });
        MemListener { id }
    }

    pub fn local_addr(&self) -> io::Result<MemAddr> {
        Ok(MemAddr { id: self.id })
    }

    pub fn accept(&self) -> io::Result<MemStream> {
        let l = self.id;
        let conn = sched(Op::Accept(l), |st, _| {
            st.net.listeners[l].accepted += 1;
            st.net.listeners[l].backlog.pop_front().unwrap()
        });
        Ok(MemStream {
            conn,
            server: true,
        })
    }
}

impl Drop for MemListener {
    fn drop(&mut self) {
        let l = self.id;
        let _ = try_with_state(|st, _| {
            st.net.listeners[l].open = false;
            let pending: Vec<usize> = st.net.listeners[l].backlog.drain(..).collect();
            for c in pending {
                st.net.client_vanishes_server_side(c);
            }
        });
    }
}

impl NetState {
    // a connection that was never accepted is reset when the listener goes away
    fn client_vanishes_server_side(&mut self, conn: usize) {
        let c = &mut self.conns[conn];
        c.pipes[0].reset = true;
        c.pipes[1].reset = true;
    }
}

impl MemAddr {
    /// What a client's `connect` does; refused once the listener has been released.
    pub fn connect(&self, opts: ConnectOpts) -> io::Result<MemStream> {
        let l = self.id;
        let conn = sched(Op::Connect(l), |st, _| {
            if !st.net.listeners[l].open {
                return None;
            }
            let mut s2c = Pipe::default();
            s2c.capacity = opts.s2c_capacity;
            s2c.cut = opts.s2c_cut;
            st.net.conns.push(ConnSt {
                pipes: [Pipe::default(), s2c],
                server_handles: 1,
                peer: opts.peer,
                listener: l,
            });
            let id = st.net.conns.len() - 1;
            st.net.listeners[l].backlog.push_back(id);
            Some(id)
        });
        match conn {
            Some(conn) => Ok(MemStream {
                conn,
                server: false,
            }),
            None => Err(io::Error::new(
                ErrorKind::ConnectionRefused,
                "connection refused",
            )),
        }
    }

    /// Is the listening object still there?  (no scheduling point)
    pub fn is_listening(&self) -> bool {
        let l = self.id;
        with_state(|st, _| st.net.listeners[l].open)
    }
}

// ------------------------------------------------------------------------- stream

/// One end of a connection.  `server == true` for the accepted end.
#[derive(Debug)]
pub struct MemStream {
    conn: usize,
    server: bool,
}

impl MemStream {
    fn rd_pipe(&self) -> Obj {
        if self.server {
            self.conn * 2
        } else {
            self.conn * 2 + 1
        }
    }
    fn wr_pipe(&self) -> Obj {
        if self.server {
            self.conn * 2 + 1
        } else {
            self.conn * 2
        }
    }

    pub fn conn_id(&self) -> usize {
        self.conn
    }

    pub fn peer_addr(&self) -> io::Result<Option<SocketAddr>> {
        let conn = self.conn;
        with_state(|st, _| {
            let c = &st.net.conns[conn];
            match c.peer {
                // getpeername(2) is not asked on UNIX sockets by the code under test
                PeerKind::Unnamed => Ok(None),
                PeerKind::Ip(a) => {
                    if c.pipes[0].reset {
                        // what Linux answers for a connection that was reset meanwhile
                        Err(io::Error::new(ErrorKind::NotConnected, "not connected"))
                    } else {
                        Ok(Some(a))
                    }
                }
            }
        })
    }

    pub fn shutdown(&self, how: Shutdown) -> io::Result<()> {
        let (rd, wr) = (self.rd_pipe(), self.wr_pipe());
        sched(Op::NetCtl(self.conn), |st, _| {
            if matches!(how, Shutdown::Read | Shutdown::Both) {
                st.net.pipe_mut(rd).reader_closed = true;
            }
            if matches!(how, Shutdown::Write | Shutdown::Both) {
                st.net.pipe_mut(wr).writer_closed = true;
            }
        });
        Ok(())
    }

    pub fn try_clone(&self) -> io::Result<MemStream> {
        let conn = self.conn;
        if self.server {
            with_state(|st, _| st.net.conns[conn].server_handles += 1);
        }
        Ok(MemStream {
            conn,
            server: self.server,
        })
    }

    pub fn read_impl(&self, buf: &mut [u8]) -> io::Result<usize> {
        let p = self.rd_pipe();
        sched(Op::Read(p), |st, _| st.net.do_read(p, buf))
    }

    pub fn write_impl(&self, buf: &[u8]) -> io::Result<usize> {
        let p = self.wr_pipe();
        sched(Op::Write(p), |st, _| st.net.do_write(p, buf))
    }
}

impl io::Read for MemStream {
    fn read(&mut self, buf: &mut [u8]) -> io::Result<usize> {
        self.read_impl(buf)
    }
}

impl io::Write for MemStream {
    fn write(&mut self, buf: &[u8]) -> io::Result<usize> {
        self.write_impl(buf)
    }
    fn flush(&mut self) -> io::Result<()> {
        Ok(())
    }
}

impl Drop for MemStream {
    fn drop(&mut self) {
        let conn = self.conn;
        let server = self.server;
        let _ = try_with_state(|st, _| {
            let c = &mut st.net.conns[conn];
            if server {
                c.server_handles -= 1;
                if c.server_handles == 0 {
                    // last descriptor gone: the kernel closes both directions
                    c.pipes[0].reader_closed = true;
                    c.pipes[1].writer_closed = true;
                }
            }
        });
    }
}

// ------------------------------------------------------------------------- client end

/// What the harness holds for one client connection.
pub struct ClientEnd {
    s: MemStream,
    closed: bool,
}

#[derive(Clone, Debug, Default, PartialEq, Eq)]
pub struct Drained {
    pub segments: Vec<Vec<u8>>,
    pub eof: bool,
    pub reset: bool,
}

impl ClientEnd {
    pub fn connect(addr: &MemAddr, opts: ConnectOpts) -> io::Result<ClientEnd> {
        Ok(ClientEnd {
            s: addr.connect(opts)?,
            closed: false,
        })
    }

    pub fn conn_id(&self) -> usize {
        self.s.conn
    }

    /// Sends one segment (the server's next read sees exactly these bytes).
    pub fn send(&self, seg: &[u8]) -> io::Result<usize> {
        self.s.write_impl(seg)
    }

    pub fn close_write(&self) {
        let _ = self.s.shutdown(Shutdown::Write);
    }

    pub fn close(&mut self) {
        if !self.closed {
            self.closed = true;
            let _ = self.s.shutdown(Shutdown::Both);
        }
    }

    pub fn reset(&mut self) {
        self.closed = true;
        let conn = self.s.conn;
        sched(Op::NetCtl(conn), |st, _| {
            st.net.client_vanishes(conn, CutKind::Reset);
        });
    }

    /// Blocking read of one segment; `Ok(empty)` is end of stream.
    pub fn read(&self) -> io::Result<Vec<u8>> {
        let mut buf = vec![0u8; 1 << 20];
        let n = self.s.read_impl(&mut buf)?;
        buf.truncate(n);
        Ok(buf)
    }

    /// Everything the server has written so far, without blocking.
    pub fn drain(&self) -> Drained {
        let p = self.s.rd_pipe();
        sched(Op::NetCtl(self.s.conn), |st, _| {
            let q = st.net.pipe_mut(p);
            let segments: Vec<Vec<u8>> = q.segs.drain(..).collect();
            for s in &segments {
                q.read += s.len() as u64;
            }
            Drained {
                segments,
                eof: q.writer_closed,
                reset: q.reset,
            }
        })
    }

    /// Bytes the server has consumed from this connection so far (no scheduling point).
    pub fn server_consumed(&self) -> u64 {
        let conn = self.s.conn;
        with_state(|st, _| st.net.conns[conn].pipes[0].read)
    }

    /// Bytes sent by the client that the server has not read yet (no scheduling point).
    pub fn unread_by_server(&self) -> usize {
        let conn = self.s.conn;
        with_state(|st, _| st.net.conns[conn].pipes[0].buffered())
    }
}

impl Drop for ClientEnd {
    fn drop(&mut self) {
        if !self.closed {
            let conn = self.s.conn;
            let _ = try_with_state(|st: &mut State, _| {
                st.net.client_vanishes(conn, CutKind::Close);
            });
        }
    }
}
