// Controlled threads: real OS threads that only run while they hold the baton.

use super::core::{
    controlled_body, ctx, lock_state, register_thread, sched, Ctx, Op, Tid, STACK_SIZE,
};
use std::time::Duration;

pub struct JoinHandle<T> {
    tid: Tid,
    inner: std::thread::JoinHandle<std::thread::Result<T>>,
}

impl<T> JoinHandle<T> {
    pub fn join(self) -> std::thread::Result<T> {
        let tid = self.tid;
        sched(Op::Join(tid), |_, _| ());
        match self.inner.join() {
            Ok(r) => r,
            Err(e) => Err(e),
        }
    }
    pub fn tid(&self) -> Tid {
        self.tid
    }
}

pub fn spawn_named<F, T>(name: Option<String>, f: F) -> JoinHandle<T>
where
    F: FnOnce() -> T + Send + 'static,
    T: Send + 'static,
{
    let c = ctx();
    let tid = {
        let mut st = lock_state(&c.exec);
        let tid = register_thread(&mut st, name);
        if st.tracing {
            let line = format!("t{:<2} spawns t{}", c.tid, tid);
            st.trace.push(line);
        }
        tid
    };
    let child = Ctx {
        exec: c.exec.clone(),
        tid,
    };
    let inner = std::thread::Builder::new()
        .stack_size(STACK_SIZE)
        .spawn(move || controlled_body(child, f))
        .expect("vrt: cannot spawn thread");
    JoinHandle { tid, inner }
}

pub fn spawn<F, T>(f: F) -> JoinHandle<T>
where
    F: FnOnce() -> T + Send + 'static,
    T: Send + 'static,
{
    spawn_named(None, f)
}

pub fn sleep(d: Duration) {
    let deadline = super::core::with_state(|st, _| st.clock.saturating_add(d.as_nanos() as u64));
    sched(Op::Sleep(deadline), |_, _| ());
}

pub fn yield_now() {
    sched(Op::Yield, |_, _| ());
}

pub fn current_tid() -> Tid {
    ctx().tid
}
