// Controlled threads: real OS threads that only run while they hold the baton.

use super::core::{controlled_body_with, ctx, lock_state, register_thread, sched, spawn_os, Ctx, Op, Tid};
use std::sync::{Arc, Mutex as StdMutex};
use std::time::Duration;

pub struct JoinHandle<T> {
    tid: Tid,
    slot: Arc<StdMutex<Option<std::thread::Result<T>>>>,
}

impl<T> JoinHandle<T> {
    pub fn join(self) -> std::thread::Result<T> {
        let tid = self.tid;
        sched(Op::Join(tid), |_, _| ());
        // the result is stored before the thread is marked finished
        self.slot
            .lock()
            .unwrap_or_else(|e| e.into_inner())
            .take()
            .expect("vrt: joined thread left no result")
    }
    pub fn tid(&self) -> Tid {
        self.tid
    }
}

pub fn spawn_named<F, T>(name: Option<String>, f: F) -> JoinHandle<T>
where
    F: FnOnce() -> T + Send + 'static,
    T: Send + 'static,
{
    let c = ctx();
    let tid = {
        let mut st = lock_state(&c.exec);
        let tid = register_thread(&mut st, name);
        if st.tracing {
            let line = format!("t{:<2} spawns t{}", c.tid, tid);
            st.trace.push(line);
        }
        tid
    };
    let child = Ctx {
        exec: c.exec.clone(),
        tid,
    };
    let slot = Arc::new(StdMutex::new(None));
    let slot2 = slot.clone();
    spawn_os(Box::new(move || {
        let _ = controlled_body_with(child, f, move |r| {
            *slot2.lock().unwrap_or_else(|e| e.into_inner()) = Some(r);
        });
    }));
    JoinHandle { tid, slot }
}

pub fn spawn<F, T>(f: F) -> JoinHandle<T>
where
    F: FnOnce() -> T + Send + 'static,
    T: Send + 'static,
{
    spawn_named(None, f)
}

pub fn sleep(d: Duration) {
    let deadline = super::core::with_state(|st, _| st.clock.saturating_add(super::time::ns_saturating(d)));
    sched(Op::Sleep(deadline), |_, _| ());
}

pub fn yield_now() {
    sched(Op::Yield, |_, _| ());
}

pub fn current_tid() -> Tid {
    ctx().tid
}
