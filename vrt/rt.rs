// vrt — controllable runtime for exhaustive exploration of real Rust code.
//
// This file is `include!`d as the body of a module (`tiny_http::verif_rt` under
// `--cfg tiny_http_verif`, or the root of the stand-alone self-test crate).  It is
// plain safe Rust on top of std only, because tiny-http is `#![forbid(unsafe_code)]`.
//
// Layout (each part is a separate file, included here so that one env var locates all):
//   core.rs   scheduler state, decision points, dispatch, run()
//   sync.rs   Mutex / Condvar / mpsc / atomics
//   thread.rs spawn / JoinHandle / sleep
//   time.rs   virtual Instant
//   net.rs    in-memory listener / stream / client end
//   ctl.rs    harness-facing control: run, settle, sleep, window, notes
//   explore.rs deviation-bounded depth-first explorer (stateless, by re-execution)

#[allow(dead_code, clippy::all)]
pub mod core {
    include!(concat!(env!("TINY_HTTP_VERIF_RT"), "/core.rs"));
}
#[allow(dead_code, clippy::all)]
pub mod sync {
    include!(concat!(env!("TINY_HTTP_VERIF_RT"), "/sync.rs"));
}
#[allow(dead_code, clippy::all)]
pub mod thread {
    include!(concat!(env!("TINY_HTTP_VERIF_RT"), "/thread.rs"));
}
#[allow(dead_code, clippy::all)]
pub mod time {
    include!(concat!(env!("TINY_HTTP_VERIF_RT"), "/time.rs"));
}
#[allow(dead_code, clippy::all)]
pub mod net {
    include!(concat!(env!("TINY_HTTP_VERIF_RT"), "/net.rs"));
}
#[allow(dead_code, clippy::all)]
pub mod ctl {
    include!(concat!(env!("TINY_HTTP_VERIF_RT"), "/ctl.rs"));
}
#[allow(dead_code, clippy::all)]
pub mod explore {
    include!(concat!(env!("TINY_HTTP_VERIF_RT"), "/explore.rs"));
}
