// Scheduler core: one controlled thread runs at a time; every visible operation is a
// scheduling point; every scheduling decision with more than one legal outcome is a
// recorded *decision point* that the explorer can branch on.

use std::cell::RefCell;
use std::collections::{HashMap, VecDeque};
use std::sync::{Arc, Condvar as StdCondvar, Mutex as StdMutex, MutexGuard as StdGuard};

pub type Tid = usize;
pub type Obj = usize;

/// A visible operation a thread is about to perform.
#[derive(Clone, Debug, PartialEq, Eq)]
pub enum Op {
    Start,
    Lock(Obj),
    /// Condvar wait, phase 1: release the mutex and register as waiter (always enabled).
    CvEnter(Obj, Obj),
    /// Condvar wait, phase 2: blocked until notified (or timed out) and the mutex is free.
    CvWait {
        cv: Obj,
        mutex: Obj,
        deadline: Option<u64>,
    },
    Notify(Obj),
    Send(Obj),
    Recv(Obj),
    ChanDrop(Obj),
    Atomic(Obj),
    Join(Tid),
    Accept(Obj),
    Connect(Obj),
    Read(Obj),
    Write(Obj),
    NetCtl(Obj),
    Sleep(u64),
    Settle,
    Yield,
}

impl Op {
    fn code(&self) -> (u8, usize) {
        match self {
            Op::Start => (0, 0),
            Op::Lock(o) => (1, *o),
            Op::CvEnter(c, _) => (2, *c),
            Op::CvWait { cv, .. } => (2, *cv),
            Op::Notify(c) => (2, *c),
            Op::Send(c) | Op::Recv(c) | Op::ChanDrop(c) => (3, *c),
            Op::Atomic(a) => (4, *a),
            Op::Join(t) => (5, *t),
            Op::Accept(l) | Op::Connect(l) => (6, *l),
            Op::Read(p) | Op::Write(p) => (7, *p),
            Op::NetCtl(c) => (7, *c * 2),
            Op::Sleep(_) => (8, 0),
            Op::Settle => (9, 0),
            Op::Yield => (10, 0),
        }
    }
    fn kind_no(&self) -> u8 {
        match self {
            Op::Start => 0,
            Op::Lock(_) => 1,
            Op::CvEnter(..) => 2,
            Op::CvWait { .. } => 3,
            Op::Notify(_) => 4,
            Op::Send(_) => 5,
            Op::Recv(_) => 6,
            Op::ChanDrop(_) => 7,
            Op::Atomic(_) => 8,
            Op::Join(_) => 9,
            Op::Accept(_) => 10,
            Op::Connect(_) => 11,
            Op::Read(_) => 12,
            Op::Write(_) => 13,
            Op::NetCtl(_) => 14,
            Op::Sleep(_) => 15,
            Op::Settle => 16,
            Op::Yield => 17,
        }
    }
}

#[derive(Clone, Copy, Debug, PartialEq, Eq)]
pub enum AltKind {
    /// the default outcome of this decision (index 0)
    Default,
    /// run another thread although the current one could continue
    Preempt,
    /// the current thread blocked / finished: run a thread other than the lowest-id one
    Switch,
    /// let a timed wait / sleep expire although something else could happen first
    Timer,
    /// `notify_one` wakes a waiter other than the longest-waiting one
    Waiter,
    /// a condition-variable wait returns although nobody notified it and no timeout
    /// expired (std allows this); offered only while `ctl::spurious(true)` is in force
    Spurious,
    /// a timed condition-variable wait that HAS been notified gets the processor only
    /// after its deadline (scheduling latency): the wait reports "not timed out" although
    /// more time than requested has passed; offered together with `Spurious`
    Late,
}

#[derive(Clone, Debug)]
pub struct Decision {
    pub n: u32,
    pub chosen: u32,
    pub kinds: Vec<AltKind>,
    pub in_window: bool,
}

#[derive(Clone, Debug, PartialEq, Eq)]
pub enum End {
    /// every controlled thread finished
    Clean,
    /// the harness thread (tid 0) finished, other threads are blocked for ever
    Leftover,
    /// the harness thread itself is blocked for ever
    Deadlock,
    /// the step cap was hit (livelock or harness too long)
    StepCap,
    /// the replayed prefix did not fit the execution (machinery error)
    Diverged,
}

#[derive(Clone, Debug)]
pub struct PanicRec {
    pub tid: Tid,
    pub thread_name: String,
    pub message: String,
    pub location: String,
    /// frames of the backtrace that belong to the crate under test (not to the runtime)
    pub lib_frames: Vec<String>,
}

pub struct ThreadSt {
    pub pending: Option<Op>,
    pub finished: bool,
    pub cv: Arc<StdCondvar>,
    pub notified: bool,
    pub timed_out: bool,
    pub name: String,
    /// how often this thread has entered a condvar wait / a channel receive that blocked
    pub blocking_ops: u64,
}

pub struct ChanSt {
    pub len: usize,
    pub senders: usize,
    pub rx_alive: bool,
}

pub struct State {
    pub threads: Vec<ThreadSt>,
    pub current: Option<Tid>,
    pub clock: u64,
    pub aborted: bool,
    pub steps: u64,
    pub step_cap: u64,
    pub points: u64,
    // objects
    pub mutexes: Vec<Option<Tid>>,
    pub condvars: Vec<VecDeque<Tid>>,
    pub chans: Vec<ChanSt>,
    pub n_atomics: usize,
    pub net: super::net::NetState,
    // decisions
    pub replay: Vec<(u32, u32)>,
    pub decisions: Vec<Decision>,
    pub window_open: bool,
    /// spurious condition-variable wake-ups are offered as 1-cost deviations
    pub spurious: bool,
    pub spurious_wakes: u64,
    pub late_wakes: u64,
    lean: bool,
    pub lean_decisions: u64,
    /// debugging knob (environment variable VRT_NO_LATE): never offer late wake-ups
    no_late: bool,
    pub divergence: Option<String>,
    pub end: Option<End>,
    // observation of the schedule
    pub trace_hash: u64,
    pub conflicts: u64,
    last_access: HashMap<(u8, usize), Tid>,
    pub tracing: bool,
    pub trace: Vec<String>,
    pub panics: Vec<PanicRec>,
    pub notes: Vec<String>,
    pub timer_fires: u64,
}

pub struct Exec {
    pub st: StdMutex<State>,
    pub done: StdCondvar,
}

#[derive(Clone)]
pub struct Ctx {
    pub exec: Arc<Exec>,
    pub tid: Tid,
}

thread_local! {
    static CTX: RefCell<Option<Ctx>> = RefCell::new(None);
}

pub fn set_ctx(c: Option<Ctx>) {
    CTX.with(|x| *x.borrow_mut() = c);
}

pub fn try_ctx() -> Option<Ctx> {
    CTX.try_with(|x| x.borrow().clone()).ok().flatten()
}

pub fn ctx() -> Ctx {
    try_ctx().expect("vrt: operation outside a controlled thread")
}

pub fn lock_state(exec: &Exec) -> StdGuard<'_, State> {
    exec.st.lock().unwrap_or_else(|e| e.into_inner())
}

/// Access the state without a scheduling point (for invisible bookkeeping).
pub fn with_state<R>(f: impl FnOnce(&mut State, Tid) -> R) -> R {
    let c = ctx();
    let mut st = lock_state(&c.exec);
    f(&mut st, c.tid)
}

pub fn try_with_state<R>(f: impl FnOnce(&mut State, Tid) -> R) -> Option<R> {
    let c = try_ctx()?;
    let mut st = lock_state(&c.exec);
    if st.aborted {
        return None;
    }
    Some(f(&mut st, c.tid))
}

#[derive(Clone, Copy)]
enum Alt {
    Run(Tid),
    Fire(Tid),
    Spurious(Tid),
    Late(Tid),
}

fn fnv(h: u64, v: u64) -> u64 {
    let mut h = h;
    for i in 0..8 {
        h ^= (v >> (i * 8)) & 0xff;
        h = h.wrapping_mul(0x100000001b3);
    }
    h
}

impl State {
    fn new(cfg: &RunCfg) -> State {
        State {
            threads: Vec::new(),
            current: None,
            clock: 0,
            aborted: false,
            steps: 0,
            step_cap: cfg.step_cap,
            points: 0,
            mutexes: Vec::new(),
            condvars: Vec::new(),
            chans: Vec::new(),
            n_atomics: 0,
            net: super::net::NetState::default(),
            replay: cfg.replay.clone(),
            decisions: Vec::new(),
            window_open: cfg.window_open,
            spurious: false,
            spurious_wakes: 0,
            late_wakes: 0,
            lean: cfg.lean && cfg.replay.is_empty(),
            lean_decisions: 0,
            no_late: std::env::var_os("VRT_NO_LATE").is_some(),
            divergence: None,
            end: None,
            trace_hash: 0xcbf29ce484222325,
            conflicts: 0,
            last_access: HashMap::new(),
            tracing: cfg.trace,
            trace: Vec::new(),
            panics: Vec::new(),
            notes: Vec::new(),
            timer_fires: 0,
        }
    }

    pub fn new_mutex(&mut self) -> Obj {
        self.mutexes.push(None);
        self.mutexes.len() - 1
    }
    pub fn new_condvar(&mut self) -> Obj {
        self.condvars.push(VecDeque::new());
        self.condvars.len() - 1
    }
    pub fn new_chan(&mut self) -> Obj {
        self.chans.push(ChanSt {
            len: 0,
            senders: 1,
            rx_alive: true,
        });
        self.chans.len() - 1
    }
    pub fn new_atomic(&mut self) -> Obj {
        self.n_atomics += 1;
        self.n_atomics - 1
    }

    fn is_enabled(&self, t: Tid) -> bool {
        let th = &self.threads[t];
        if th.finished {
            return false;
        }
        match th.pending.as_ref() {
            None => false,
            Some(op) => match op {
                Op::Start
                | Op::CvEnter(..)
                | Op::Notify(_)
                | Op::Send(_)
                | Op::ChanDrop(_)
                | Op::Atomic(_)
                | Op::Connect(_)
                | Op::NetCtl(_)
                | Op::Yield => true,
                Op::Lock(m) => self.mutexes[*m].is_none(),
                Op::CvWait { mutex, .. } => {
                    (th.notified || th.timed_out) && self.mutexes[*mutex].is_none()
                }
                Op::Recv(c) => self.chans[*c].len > 0 || self.chans[*c].senders == 0,
                Op::Join(t2) => self.threads[*t2].finished,
                Op::Accept(l) => self.net.accept_ready(*l),
                Op::Read(p) => self.net.readable(*p),
                Op::Write(p) => self.net.writable(*p),
                Op::Sleep(d) => self.clock >= *d,
                Op::Settle => false,
            },
        }
    }

    /// Threads with an armed timer that has not fired: (deadline, tid), sorted.
    fn timers(&self) -> Vec<(u64, Tid)> {
        let mut v = Vec::new();
        for (t, th) in self.threads.iter().enumerate() {
            if th.finished {
                continue;
            }
            match th.pending {
                Some(Op::CvWait {
                    deadline: Some(d), ..
                }) if !th.notified && !th.timed_out => v.push((d, t)),
                Some(Op::Sleep(d)) if self.clock < d => v.push((d, t)),
                _ => (),
            }
        }
        v.sort();
        v
    }

    /// Threads parked in a condition-variable wait that nobody has notified.
    fn parked_waiters(&self) -> Vec<Tid> {
        if !self.spurious || !self.window_open {
            return Vec::new();
        }
        let mut v = Vec::new();
        for (t, th) in self.threads.iter().enumerate() {
            if th.finished {
                continue;
            }
            if let Some(Op::CvWait { .. }) = th.pending {
                if !th.notified && !th.timed_out {
                    v.push(t);
                }
            }
        }
        v
    }

    /// Notified timed waiters whose deadline has not passed yet.
    fn late_candidates(&self) -> Vec<Tid> {
        if !self.spurious || !self.window_open || self.no_late {
            return Vec::new();
        }
        let mut v = Vec::new();
        for (t, th) in self.threads.iter().enumerate() {
            if th.finished {
                continue;
            }
            if let Some(Op::CvWait { deadline: Some(d), .. }) = th.pending {
                if th.notified && !th.timed_out && self.clock <= d {
                    v.push(t);
                }
            }
        }
        v
    }

    fn wake_late(&mut self, t: Tid) {
        self.late_wakes += 1;
        if let Some(Op::CvWait { deadline: Some(d), .. }) = self.threads[t].pending {
            // 100 us past the deadline
            self.clock = self.clock.max(d.saturating_add(100_000));
        }
        if self.tracing {
            let line = format!("        ~ notified t{} is scheduled only after its deadline, clock={}ns", t, self.clock);
            self.trace.push(line);
        }
    }

    fn wake_spuriously(&mut self, t: Tid) {
        self.spurious_wakes += 1;
        if let Some(Op::CvWait { cv, .. }) = self.threads[t].pending {
            self.threads[t].notified = true;
            self.condvars[cv].retain(|&w| w != t);
        }
        if self.tracing {
            let line = format!("        ~ t{} wakes spuriously from its condvar wait", t);
            self.trace.push(line);
        }
    }

    fn fire(&mut self, t: Tid) {
        self.timer_fires += 1;
        let (deadline, cv) = match self.threads[t].pending {
            Some(Op::CvWait {
                deadline: Some(d),
                cv,
                ..
            }) => (d, Some(cv)),
            Some(Op::Sleep(d)) => (d, None),
            _ => unreachable!("vrt: fire on a thread without timer"),
        };
        if self.clock < deadline {
            self.clock = deadline;
        }
        if let Some(cv) = cv {
            self.threads[t].timed_out = true;
            self.condvars[cv].retain(|&w| w != t);
        }
        if self.tracing {
            let line = format!("        ~ timer of t{} fires, clock={}ns", t, self.clock);
            self.trace.push(line);
        }
    }

    /// A recorded decision among `kinds.len()` outcomes; returns the index chosen.
    pub fn decide(&mut self, kinds: Vec<AltKind>) -> usize {
        let n = kinds.len();
        if n <= 1 {
            return 0;
        }
        if self.lean {
            self.lean_decisions += 1;
            return 0;
        }
        let idx = self.decisions.len();
        let mut chosen = 0usize;
        if idx < self.replay.len() {
            let (c, expect_n) = self.replay[idx];
            if c as usize >= n || (expect_n != 0 && expect_n as usize != n) {
                self.divergence = Some(format!(
                    "decision #{}: replay wants alternative {} of {}, execution offers {}",
                    idx, c, expect_n, n
                ));
                self.finish(End::Diverged);
                return 0;
            }
            chosen = c as usize;
        }
        self.decisions.push(Decision {
            n: n as u32,
            chosen: chosen as u32,
            kinds,
            in_window: self.window_open,
        });
        chosen
    }

    fn finish(&mut self, end: End) {
        if self.end.is_none() {
            self.aborted = end != End::Clean;
            self.end = Some(end);
            self.current = None;
        }
    }

    fn record_step(&mut self, me: Tid, op: &Op) {
        self.points += 1;
        let (k, o) = op.code();
        self.trace_hash = fnv(self.trace_hash, me as u64);
        self.trace_hash = fnv(self.trace_hash, op.kind_no() as u64);
        self.trace_hash = fnv(self.trace_hash, o as u64);
        if k != 0 && k < 8 {
            if let Some(prev) = self.last_access.insert((k, o), me) {
                if prev != me {
                    self.conflicts += 1;
                }
            }
        }
        if self.tracing {
            let line = format!("t{:<2} {:<10} {:?}", me, self.threads[me].name, op);
            self.trace.push(line);
        }
    }

    pub fn blocked_report(&self) -> Vec<String> {
        let mut v = Vec::new();
        for (t, th) in self.threads.iter().enumerate() {
            if !th.finished {
                v.push(format!("t{} {} waits in {:?}", t, th.name, th.pending));
            }
        }
        v
    }

    pub fn live_threads(&self) -> usize {
        self.threads.iter().filter(|t| !t.finished).count()
    }
}

/// Chooses what happens next and hands the baton over.  Called with the state locked by
/// the thread that has just published its pending operation (or has just finished).
pub fn dispatch(exec: &Exec, st: &mut State) {
    loop {
        if st.end.is_some() {
            exec.done.notify_all();
            return;
        }
        st.steps += 1;
        if st.steps > st.step_cap {
            st.finish(End::StepCap);
            exec.done.notify_all();
            return;
        }
        let n = st.threads.len();
        let run: Vec<Tid> = (0..n).filter(|&t| st.is_enabled(t)).collect();
        let tm = st.timers();
        let sp = st.parked_waiters();
        let late = st.late_candidates();
        let mut alts: Vec<Alt> = Vec::new();
        let mut kinds: Vec<AltKind> = Vec::new();
        if !run.is_empty() {
            let cur_enabled = st.current.map_or(false, |c| run.contains(&c));
            let def = if cur_enabled {
                st.current.unwrap()
            } else {
                run[0]
            };
            alts.push(Alt::Run(def));
            kinds.push(AltKind::Default);
            for &t in &run {
                if t != def {
                    alts.push(Alt::Run(t));
                    kinds.push(if cur_enabled {
                        AltKind::Preempt
                    } else {
                        AltKind::Switch
                    });
                }
            }
            for &(_, t) in &tm {
                alts.push(Alt::Fire(t));
                kinds.push(AltKind::Timer);
            }
            for &t in &sp {
                alts.push(Alt::Spurious(t));
                kinds.push(AltKind::Spurious);
            }
            for &t in &late {
                alts.push(Alt::Late(t));
                kinds.push(AltKind::Late);
            }
        } else {
            let settle: Vec<Tid> = (0..n)
                .filter(|&t| !st.threads[t].finished && st.threads[t].pending == Some(Op::Settle))
                .collect();
            if !settle.is_empty() {
                alts.push(Alt::Run(settle[0]));
                kinds.push(AltKind::Default);
                for &t in &settle[1..] {
                    alts.push(Alt::Run(t));
                    kinds.push(AltKind::Switch);
                }
                for &(_, t) in &tm {
                    alts.push(Alt::Fire(t));
                    kinds.push(AltKind::Timer);
                }
                for &t in &sp {
                    alts.push(Alt::Spurious(t));
                    kinds.push(AltKind::Spurious);
                }
                for &t in &late {
                    alts.push(Alt::Late(t));
                    kinds.push(AltKind::Late);
                }
            } else if !tm.is_empty() {
                // quiescence: time passes, the earliest deadline fires at no cost
                alts.push(Alt::Fire(tm[0].1));
                kinds.push(AltKind::Default);
                for &(_, t) in &tm[1..] {
                    alts.push(Alt::Fire(t));
                    kinds.push(AltKind::Timer);
                }
                for &t in &sp {
                    alts.push(Alt::Spurious(t));
                    kinds.push(AltKind::Spurious);
                }
                for &t in &late {
                    alts.push(Alt::Late(t));
                    kinds.push(AltKind::Late);
                }
            } else {
                let all_done = st.threads.iter().all(|t| t.finished);
                let end = if all_done {
                    End::Clean
                } else if st.threads[0].finished {
                    End::Leftover
                } else {
                    End::Deadlock
                };
                st.finish(end);
                exec.done.notify_all();
                return;
            }
        }
        let k = st.decide(kinds);
        if st.end.is_some() {
            exec.done.notify_all();
            return;
        }
        match alts[k] {
            Alt::Run(t) => {
                st.current = Some(t);
                st.threads[t].cv.notify_all();
                return;
            }
            Alt::Fire(t) => {
                st.fire(t);
            }
            Alt::Spurious(t) => {
                st.wake_spuriously(t);
            }
            Alt::Late(t) => {
                st.wake_late(t);
            }
        }
    }
}

fn park_for_ever(exec: &Exec, mut st: StdGuard<'_, State>) -> ! {
    // an abandoned execution: this thread is leaked on purpose (see DESIGN 3.4)
    let cv = StdCondvar::new();
    loop {
        st = cv.wait(st).unwrap_or_else(|e| e.into_inner());
        let _ = exec;
    }
}

/// The scheduling point.  Publishes `op`, lets the scheduler decide who runs, blocks
/// until this thread is chosen (which implies `op` is enabled), then performs `effect`
/// atomically under the runtime lock.
pub fn sched<R>(op: Op, effect: impl FnOnce(&mut State, Tid) -> R) -> R {
    let c = ctx();
    let me = c.tid;
    let mut st = lock_state(&c.exec);
    if st.aborted {
        park_for_ever(&c.exec, st);
    }
    debug_assert_eq!(st.current, Some(me), "vrt: thread runs without the baton");
    st.threads[me].pending = Some(op);
    dispatch(&c.exec, &mut st);
    let cv = st.threads[me].cv.clone();
    loop {
        if st.aborted {
            park_for_ever(&c.exec, st);
        }
        if st.current == Some(me) {
            break;
        }
        st = cv.wait(st).unwrap_or_else(|e| e.into_inner());
    }
    let op = st.threads[me].pending.take().expect("vrt: chosen without pending op");
    st.record_step(me, &op);
    effect(&mut st, me)
}

/// First scheduling of a freshly spawned thread.
pub fn thread_begin(c: &Ctx) {
    let me = c.tid;
    let mut st = lock_state(&c.exec);
    let cv = st.threads[me].cv.clone();
    loop {
        if st.aborted {
            park_for_ever(&c.exec, st);
        }
        if st.current == Some(me) {
            break;
        }
        st = cv.wait(st).unwrap_or_else(|e| e.into_inner());
    }
    let op = st.threads[me].pending.take().expect("vrt: start without pending op");
    st.record_step(me, &op);
}

pub fn thread_end(c: &Ctx) {
    let me = c.tid;
    let mut st = lock_state(&c.exec);
    if st.aborted {
        return;
    }
    st.threads[me].finished = true;
    st.threads[me].pending = None;
    dispatch(&c.exec, &mut st);
}

pub fn register_thread(st: &mut State, name: Option<String>) -> Tid {
    let tid = st.threads.len();
    st.threads.push(ThreadSt {
        pending: Some(Op::Start),
        finished: false,
        cv: Arc::new(StdCondvar::new()),
        notified: false,
        timed_out: false,
        name: name.unwrap_or_else(|| format!("thread{}", tid)),
        blocking_ops: 0,
    });
    tid
}

pub const STACK_SIZE: usize = 512 * 1024;

// OS threads are reused across executions: creating and destroying a thread costs far
// more than a whole small execution.  A thread that is parked for ever in an abandoned
// execution simply never comes back to the pool.
type Job = Box<dyn FnOnce() + Send + 'static>;
static POOL: StdMutex<Vec<std::sync::mpsc::Sender<Job>>> = StdMutex::new(Vec::new());

pub fn spawn_os(job: Job) {
    let mut job = job;
    loop {
        let idle = POOL.lock().unwrap_or_else(|e| e.into_inner()).pop();
        match idle {
            Some(tx) => match tx.send(job) {
                Ok(()) => return,
                Err(e) => job = e.0,
            },
            None => break,
        }
    }
    let (tx, rx) = std::sync::mpsc::channel::<Job>();
    tx.send(job).expect("vrt: fresh pool channel");
    std::thread::Builder::new()
        .stack_size(STACK_SIZE)
        .spawn(move || {
            while let Ok(job) = rx.recv() {
                job();
                POOL.lock().unwrap_or_else(|e| e.into_inner()).push(tx.clone());
            }
        })
        .expect("vrt: cannot spawn thread");
}

/// Body wrapper shared by `run` and `thread::spawn`.
pub fn controlled_body<T>(c: Ctx, f: impl FnOnce() -> T) {
    controlled_body_with(c, f, |_| ())
}

/// `deliver` receives the thread's result before the thread is marked finished.
pub fn controlled_body_with<T>(
    c: Ctx,
    f: impl FnOnce() -> T,
    deliver: impl FnOnce(std::thread::Result<T>),
) {
    set_ctx(Some(c.clone()));
    thread_begin(&c);
    let r = std::panic::catch_unwind(std::panic::AssertUnwindSafe(f));
    deliver(r);
    thread_end(&c);
    set_ctx(None);
}

#[derive(Clone, Debug)]
pub struct RunCfg {
    /// (chosen alternative, expected number of alternatives or 0 = unknown) per decision
    pub replay: Vec<(u32, u32)>,
    pub step_cap: u64,
    pub trace: bool,
    pub window_open: bool,
    /// default schedule only, decisions are counted but not recorded: the runtime's own
    /// bookkeeping then does not grow with the length of the execution (C14 measures the
    /// heap of the whole process)
    pub lean: bool,
}

impl Default for RunCfg {
    fn default() -> RunCfg {
        RunCfg {
            replay: Vec::new(),
            step_cap: 2_000_000,
            trace: false,
            window_open: true,
            lean: false,
        }
    }
}

#[derive(Clone, Debug)]
pub struct RunResult {
    pub decisions: Vec<Decision>,
    pub steps: u64,
    pub points: u64,
    pub trace_hash: u64,
    pub conflicts: u64,
    pub end: End,
    pub panics: Vec<PanicRec>,
    pub clock: u64,
    pub divergence: Option<String>,
    pub blocked: Vec<String>,
    pub leaked_threads: usize,
    pub threads_spawned: usize,
    pub notes: Vec<String>,
    pub trace: Vec<String>,
    pub late_wakes: u64,
    pub spurious_wakes: u64,
    pub timer_fires: u64,
}

/// Runs `f` as controlled thread 0 of a fresh execution and returns when the execution
/// has ended (all threads finished, or nothing can ever run again, or a cap was hit).
pub fn run<F: FnOnce() + Send + 'static>(cfg: &RunCfg, f: F) -> RunResult {
    install_panic_hook();
    let mut st0 = State::new(cfg);
    register_thread(&mut st0, Some("harness".to_string()));
    let exec = Arc::new(Exec {
        st: StdMutex::new(st0),
        done: StdCondvar::new(),
    });
    let c = Ctx {
        exec: exec.clone(),
        tid: 0,
    };
    spawn_os(Box::new(move || {
        let _ = controlled_body(c, f);
    }));
    let mut st = lock_state(&exec);
    dispatch(&exec, &mut st);
    while st.end.is_none() {
        st = exec.done.wait(st).unwrap_or_else(|e| e.into_inner());
    }
    let end = st.end.clone().unwrap();
    let res = RunResult {
        decisions: std::mem::take(&mut st.decisions),
        steps: st.steps,
        points: st.points,
        trace_hash: st.trace_hash,
        conflicts: st.conflicts,
        end: end.clone(),
        panics: st.panics.clone(),
        clock: st.clock,
        divergence: st.divergence.clone(),
        blocked: if end == End::Clean {
            Vec::new()
        } else {
            st.blocked_report()
        },
        leaked_threads: st.live_threads(),
        threads_spawned: st.threads.len(),
        notes: std::mem::take(&mut st.notes),
        trace: std::mem::take(&mut st.trace),
        late_wakes: st.late_wakes,
        spurious_wakes: st.spurious_wakes,
        timer_fires: st.timer_fires,
    };
    drop(st);
    res
}

// ---------------------------------------------------------------------------------------
// panic recording

static HOOK: std::sync::Once = std::sync::Once::new();

pub fn install_panic_hook() {
    HOOK.call_once(|| {
        let prev = std::panic::take_hook();
        std::panic::set_hook(Box::new(move |info| {
            let c = match try_ctx() {
                Some(c) => c,
                None => {
                    prev(info);
                    return;
                }
            };
            let message = if let Some(s) = info.payload().downcast_ref::<&str>() {
                (*s).to_string()
            } else if let Some(s) = info.payload().downcast_ref::<String>() {
                s.clone()
            } else {
                "<non-string panic payload>".to_string()
            };
            let location = info
                .location()
                .map(|l| format!("{}:{}", l.file(), l.line()))
                .unwrap_or_default();
            let bt = std::backtrace::Backtrace::force_capture().to_string();
            let mut lib_frames = Vec::new();
            for line in bt.lines() {
                let l = line.trim();
                if l.contains("tiny_http::") && !l.contains("verif_rt") {
                    lib_frames.push(l.to_string());
                }
            }
            let mut st = lock_state(&c.exec);
            let name = st.threads[c.tid].name.clone();
            if st.tracing {
                let line = format!("t{:<2} PANIC {} at {}", c.tid, message, location);
                st.trace.push(line);
            }
            st.panics.push(PanicRec {
                tid: c.tid,
                thread_name: name,
                message,
                location,
                lib_frames,
            });
        }));
    });
}
