// Deviation-bounded exhaustive exploration by re-execution (stateless depth-first search).
//
// A node is a list of choices (one per decision point).  Running a node replays its
// choices and then takes the default everywhere; every later decision point of that
// execution yields one child per non-default alternative whose cost fits the bound.
// No partial-order reduction is applied: every choice sequence within the bound is run.

use super::core::{AltKind, RunResult};
use std::collections::HashSet;

#[derive(Clone, Copy, Debug, PartialEq, Eq)]
pub enum Mode {
    /// CHESS semantics: only preemptions, early timeouts and unusual wake-ups cost 1;
    /// choosing among threads when the running one blocked is free.
    Chess,
    /// every departure from the default schedule costs 1
    Strict,
}

#[derive(Clone, Debug)]
pub struct ExploreCfg {
    pub mode: Mode,
    /// None = unbounded (every alternative everywhere)
    pub bound: Option<u32>,
    pub max_execs: u64,
    pub deadline: Option<std::time::Instant>,
}

pub type Prefix = Vec<(u32, u32)>;

#[derive(Clone, Debug)]
pub struct Node {
    pub prefix: Prefix,
    pub spent: u32,
}

#[derive(Clone, Debug, Default)]
pub struct ExploreStats {
    pub execs: u64,
    pub decisions: u64,
    pub points: u64,
    pub steps: u64,
    pub max_depth: usize,
    /// most steps taken by one execution (the step cap ends an execution as a livelock)
    pub max_steps: u64,
    pub max_spent: u32,
    pub capped: bool,
    pub distinct_traces: HashSet<u64>,
    pub conflicting_execs: u64,
    pub timer_fires: u64,
    pub spurious_wakes: u64,
    pub late_wakes: u64,
}

pub fn cost(kind: AltKind, mode: Mode) -> u32 {
    match kind {
        AltKind::Default => 0,
        AltKind::Preempt | AltKind::Timer | AltKind::Waiter | AltKind::Spurious | AltKind::Late => 1,
        AltKind::Switch => match mode {
            Mode::Chess => 0,
            Mode::Strict => 1,
        },
    }
}

/// Children of an executed node.
pub fn children(res: &RunResult, node: &Node, cfg: &ExploreCfg) -> Vec<Node> {
    let mut out = Vec::new();
    let fixed = node.prefix.len();
    let mut base: Prefix = res
        .decisions
        .iter()
        .take(fixed)
        .map(|d| (d.chosen, d.n))
        .collect();
    for i in fixed..res.decisions.len() {
        let d = &res.decisions[i];
        if d.in_window {
            for alt in 1..d.n {
                let c = cost(d.kinds[alt as usize], cfg.mode);
                let spent = node.spent + c;
                if cfg.bound.map_or(true, |b| spent <= b) {
                    let mut p = base.clone();
                    p.push((alt, d.n));
                    out.push(Node { prefix: p, spent });
                }
            }
        }
        base.push((d.chosen, d.n));
    }
    out
}

/// Explores the whole tree below `root`.  `run_one` executes one node and returns the
/// run result and whether to go on (false = stop early, e.g. after a violation).
pub fn explore<F>(cfg: &ExploreCfg, root: Node, stats: &mut ExploreStats, mut run_one: F)
where
    F: FnMut(&Node) -> (RunResult, bool),
{
    let mut stack = vec![root];
    while let Some(node) = stack.pop() {
        if stats.execs >= cfg.max_execs
            || cfg
                .deadline
                .map_or(false, |d| std::time::Instant::now() >= d)
        {
            stats.capped = true;
            return;
        }
        let (res, go_on) = run_one(&node);
        account(stats, &res, &node);
        if !go_on {
            stats.capped = true;
            return;
        }
        if res.divergence.is_some() {
            continue;
        }
        let mut ch = children(&res, &node, cfg);
        ch.reverse();
        stack.extend(ch);
    }
}

pub fn account(stats: &mut ExploreStats, res: &RunResult, node: &Node) {
    stats.execs += 1;
    stats.decisions += res.decisions.len() as u64;
    stats.points += res.points;
    stats.steps += res.steps;
    stats.max_depth = stats.max_depth.max(res.decisions.len());
    stats.max_steps = stats.max_steps.max(res.steps);
    stats.max_spent = stats.max_spent.max(node.spent);
    stats.distinct_traces.insert(res.trace_hash);
    if res.conflicts > 0 {
        stats.conflicting_execs += 1;
    }
    stats.timer_fires += res.timer_fires;
    stats.spurious_wakes += res.spurious_wakes;
    stats.late_wakes += res.late_wakes;
}
