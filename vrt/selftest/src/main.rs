// Self-tests of the exploration engine.  Nothing about tiny-http is believed before
// these pass (DESIGN 3.7): the engine must find the textbook bugs at exactly the
// deviation bound where they become reachable, count interleavings exactly, replay
// deterministically and keep its virtual clock honest.
#![forbid(unsafe_code)]
#![deny(rust_2018_idioms)]

pub mod verif_rt {
    include!(concat!(env!("TINY_HTTP_VERIF_RT"), "/rt.rs"));
}

use std::sync::{Arc as StdArc, Mutex as StdMutex};
use std::time::Duration;
use verif_rt::core::{End, RunCfg, RunResult};
use verif_rt::explore::{explore, ExploreCfg, ExploreStats, Mode, Node};
use verif_rt::sync::atomic::{AtomicUsize, Ordering};
use verif_rt::sync::mpsc;
use verif_rt::sync::{Arc, Condvar, Mutex};
use verif_rt::{ctl, net, thread, time};

type Obs<T> = StdArc<StdMutex<T>>;

fn obs<T>(t: T) -> Obs<T> {
    StdArc::new(StdMutex::new(t))
}

/// Explore `body` and return (stats, list of (result, observation)) for every execution.
fn explore_all<O, B>(mode: Mode, bound: Option<u32>, body: B) -> (ExploreStats, Vec<(RunResult, O)>)
where
    O: Default + Clone + Send + 'static,
    B: Fn(Obs<O>) + Send + Sync + Clone + 'static,
{
    let cfg = ExploreCfg {
        mode,
        bound,
        max_execs: 5_000_000,
        deadline: None,
    };
    let mut stats = ExploreStats::default();
    let mut all = Vec::new();
    explore(
        &cfg,
        Node {
            prefix: vec![],
            spent: 0,
        },
        &mut stats,
        |node| {
            let o: Obs<O> = obs(O::default());
            let o2 = o.clone();
            let b = body.clone();
            let rc = RunCfg {
                replay: node.prefix.clone(),
                ..RunCfg::default()
            };
            let res = ctl::run(&rc, move || b(o2));
            let ob = o.lock().unwrap().clone();
            all.push((res.clone(), ob));
            (res, true)
        },
    );
    (stats, all)
}

fn lost_update_body(o: Obs<usize>) {
    let n = Arc::new(AtomicUsize::new(0));
    let hs: Vec<_> = (0..2)
        .map(|_| {
            let n = n.clone();
            thread::spawn(move || {
                let v = n.load(Ordering::SeqCst);
                n.store(v + 1, Ordering::SeqCst);
            })
        })
        .collect();
    for h in hs {
        h.join().unwrap();
    }
    *o.lock().unwrap() = n.load(Ordering::SeqCst);
}

fn t_lost_update() -> Result<String, String> {
    let (s0, r0) = explore_all::<usize, _>(Mode::Chess, Some(0), lost_update_body);
    if r0.iter().any(|(_, v)| *v != 2) {
        return Err("lost update found at preemption bound 0".into());
    }
    let (s1, r1) = explore_all::<usize, _>(Mode::Chess, Some(1), lost_update_body);
    if !r1.iter().any(|(_, v)| *v == 1) {
        return Err("lost update NOT found at preemption bound 1".into());
    }
    if r1.iter().any(|(r, _)| r.end != End::Clean) {
        return Err("unexpected non-clean end".into());
    }
    Ok(format!(
        "bound0: {} execs all =2; bound1: {} execs, lost update seen",
        s0.execs, s1.execs
    ))
}

fn binom(n: u64, k: u64) -> u64 {
    let mut r = 1u64;
    for i in 0..k {
        r = r * (n - i) / (i + 1);
    }
    r
}

fn t_count_interleavings() -> Result<String, String> {
    let mut msg = String::new();
    for k in 1..=3u64 {
        let body = move |o: Obs<Vec<(u8, u8)>>| {
            let a = Arc::new(AtomicUsize::new(0));
            let hs: Vec<_> = (0..2u8)
                .map(|t| {
                    let a = a.clone();
                    let o = o.clone();
                    thread::spawn(move || {
                        for i in 0..k as u8 {
                            a.fetch_add(1, Ordering::SeqCst);
                            o.lock().unwrap().push((t, i));
                        }
                    })
                })
                .collect();
            for h in hs {
                h.join().unwrap();
            }
        };
        let (s, r) = explore_all::<Vec<(u8, u8)>, _>(Mode::Chess, None, body);
        let distinct: std::collections::HashSet<Vec<(u8, u8)>> =
            r.iter().map(|(_, o)| o.clone()).collect();
        let want = binom(2 * k, k);
        if distinct.len() as u64 != want {
            return Err(format!(
                "k={}: {} distinct orders of the atomic steps, expected C({},{})={}",
                k,
                distinct.len(),
                2 * k,
                k,
                want
            ));
        }
        // no execution may be run twice: all choice sequences are distinct
        let seqs: std::collections::HashSet<Vec<u32>> = r
            .iter()
            .map(|(res, _)| res.decisions.iter().map(|d| d.chosen).collect())
            .collect();
        if seqs.len() as u64 != s.execs {
            return Err(format!("k={}: duplicate executions", k));
        }
        msg += &format!("k={}: {} orders in {} execs; ", k, want, s.execs);
    }
    Ok(msg)
}

fn lost_wakeup_body(o: Obs<bool>) {
    // consumer: `if !flag { wait }` with the flag checked OUTSIDE the lock that the
    // producer uses for notifying: classic lost wake-up
    let flag = Arc::new(AtomicUsize::new(0));
    let m = Arc::new(Mutex::new(()));
    let cv = Arc::new(Condvar::new());
    let (f2, m2, cv2) = (flag.clone(), m.clone(), cv.clone());
    let h = thread::spawn(move || {
        if f2.load(Ordering::SeqCst) == 0 {
            let g = m2.lock().unwrap();
            let _g = cv2.wait(g).unwrap();
        }
    });
    flag.store(1, Ordering::SeqCst);
    cv.notify_one();
    h.join().unwrap();
    *o.lock().unwrap() = true;
}

fn t_lost_wakeup() -> Result<String, String> {
    let (s, r) = explore_all::<bool, _>(Mode::Chess, Some(2), lost_wakeup_body);
    let dead = r.iter().filter(|(res, _)| res.end == End::Deadlock).count();
    let ok = r.iter().filter(|(res, ob)| res.end == End::Clean && *ob).count();
    if dead == 0 {
        return Err("lost wake-up deadlock not found".into());
    }
    if ok == 0 {
        return Err("no successful execution at all".into());
    }
    Ok(format!("{} execs: {} deadlock, {} fine", s.execs, dead, ok))
}

fn abba_body(_o: Obs<()>) {
    let a = Arc::new(Mutex::new(0));
    let b = Arc::new(Mutex::new(0));
    let (a2, b2) = (a.clone(), b.clone());
    let h = thread::spawn(move || {
        let _x = b2.lock().unwrap();
        let _y = a2.lock().unwrap();
    });
    {
        let _x = a.lock().unwrap();
        let _y = b.lock().unwrap();
    }
    h.join().unwrap();
}

fn t_abba() -> Result<String, String> {
    let (_, r0) = explore_all::<(), _>(Mode::Chess, Some(0), abba_body);
    if r0.iter().any(|(res, _)| res.end != End::Clean) {
        return Err("AB/BA deadlock at bound 0?".into());
    }
    let (s, r) = explore_all::<(), _>(Mode::Chess, Some(1), abba_body);
    let dead: Vec<_> = r.iter().filter(|(res, _)| res.end == End::Deadlock).collect();
    if dead.is_empty() {
        return Err("AB/BA deadlock not found at bound 1".into());
    }
    let rep = dead[0].0.blocked.join(" | ");
    if !rep.contains("Lock") {
        return Err(format!("deadlock report does not name the locks: {}", rep));
    }
    Ok(format!("{} execs, {} deadlocks; e.g. {}", s.execs, dead.len(), rep))
}

#[derive(Default, Clone, Debug, PartialEq, Eq, Hash)]
struct ToObs {
    timed_out: Option<bool>,
    saw_item: bool,
    waited_ns: u64,
}

fn timeout_race_body(o: Obs<ToObs>) {
    // waiter: wait_timeout(10ms) for an item; producer pushes + notifies immediately.
    let q = Arc::new(Mutex::new(Vec::<u32>::new()));
    let cv = Arc::new(Condvar::new());
    let (q2, cv2, o2) = (q.clone(), cv.clone(), o.clone());
    let h = thread::spawn(move || {
        let g = q2.lock().unwrap();
        if g.is_empty() {
            let t0 = time::Instant::now();
            let (g, r) = cv2.wait_timeout(g, Duration::from_millis(10)).unwrap();
            let mut ob = o2.lock().unwrap();
            ob.timed_out = Some(r.timed_out());
            ob.saw_item = !g.is_empty();
            ob.waited_ns = t0.elapsed().as_nanos() as u64;
        } else {
            o2.lock().unwrap().saw_item = true;
        }
    });
    ctl::settle();
    {
        let mut g = q.lock().unwrap();
        g.push(7);
        cv.notify_one();
    }
    h.join().unwrap();
}

fn t_timeout_race() -> Result<String, String> {
    let (_, r0) = explore_all::<ToObs, _>(Mode::Chess, Some(0), timeout_race_body);
    if r0.iter().any(|(_, ob)| ob.timed_out != Some(false)) {
        return Err(format!("bound 0 must not time out: {:?}", r0.iter().map(|x| &x.1).collect::<Vec<_>>()));
    }
    let (s, r1) = explore_all::<ToObs, _>(Mode::Chess, Some(1), timeout_race_body);
    let to: Vec<&ToObs> = r1
        .iter()
        .map(|x| &x.1)
        .filter(|ob| ob.timed_out == Some(true))
        .collect();
    if to.is_empty() {
        return Err("timeout racing with the notification not explored at bound 1".into());
    }
    for ob in &to {
        if ob.waited_ns < 10_000_000 {
            return Err(format!("timed-out wait took only {} ns", ob.waited_ns));
        }
    }
    // both: timed out and item present / absent must occur
    let kinds: std::collections::HashSet<(Option<bool>, bool)> =
        r1.iter().map(|x| (x.1.timed_out, x.1.saw_item)).collect();
    if !kinds.contains(&(Some(true), true)) || !kinds.contains(&(Some(true), false)) {
        return Err(format!("expected timed-out waits with and without item, got {:?}", kinds));
    }
    Ok(format!("{} execs at bound 1, outcomes {:?}", s.execs, kinds))
}

fn t_replay_determinism() -> Result<String, String> {
    let (_, r) = explore_all::<ToObs, _>(Mode::Chess, Some(3), timeout_race_body);
    let mut checked = 0;
    for (res, ob) in r.iter() {
        let prefix: Vec<(u32, u32)> = res.decisions.iter().map(|d| (d.chosen, d.n)).collect();
        for _ in 0..2 {
            let o = obs(ToObs::default());
            let o2 = o.clone();
            let rc = RunCfg {
                replay: prefix.clone(),
                ..RunCfg::default()
            };
            let again = ctl::run(&rc, move || timeout_race_body(o2));
            if again.trace_hash != res.trace_hash || *o.lock().unwrap() != *ob {
                return Err("replay produced a different execution".into());
            }
            if again.divergence.is_some() {
                return Err("replay diverged".into());
            }
        }
        checked += 1;
    }
    // a prefix that does not fit must be reported as divergence, not silently accepted
    let rc = RunCfg {
        replay: vec![(9, 0); 3],
        ..RunCfg::default()
    };
    let o = obs(ToObs::default());
    let bad = ctl::run(&rc, move || timeout_race_body(o));
    if bad.end != End::Diverged {
        return Err(format!("impossible prefix ended as {:?}", bad.end));
    }
    Ok(format!("{} schedules replayed twice identically; bad prefix = Diverged", checked))
}

#[derive(Default, Clone, Debug)]
struct ClockObs {
    stamps: Vec<u64>,
}

fn clock_body(o: Obs<ClockObs>) {
    let m = Arc::new(Mutex::new(()));
    let cv = Arc::new(Condvar::new());
    let mut hs = Vec::new();
    for d in [5u64, 3, 9] {
        let (m, cv, o) = (m.clone(), cv.clone(), o.clone());
        hs.push(thread::spawn(move || {
            let g = m.lock().unwrap();
            let t0 = time::Instant::now();
            let (_g, r) = cv.wait_timeout(g, Duration::from_millis(d)).unwrap();
            let el = t0.elapsed().as_nanos() as u64;
            assert!(r.timed_out());
            assert!(el >= d * 1_000_000, "timed wait shorter than its timeout");
            o.lock().unwrap().stamps.push(time::Instant::now().as_nanos());
        }));
    }
    let t0 = time::Instant::now();
    ctl::sleep(Duration::from_millis(4));
    assert!(t0.elapsed() >= Duration::from_millis(4));
    for h in hs {
        h.join().unwrap();
    }
}

fn t_clock() -> Result<String, String> {
    let (s, r) = explore_all::<ClockObs, _>(Mode::Chess, Some(2), clock_body);
    for (res, ob) in &r {
        if res.end != End::Clean || !res.panics.is_empty() {
            return Err(format!("clock body failed: {:?} {:?}", res.end, res.panics));
        }
        let mut sorted = ob.stamps.clone();
        sorted.sort();
        if sorted != ob.stamps {
            return Err("clock not monotone".into());
        }
    }
    let (_, r0) = explore_all::<ClockObs, _>(Mode::Chess, Some(0), clock_body);
    if r0[0].1.stamps != vec![3_000_000, 5_000_000, 9_000_000] {
        return Err(format!("default schedule: timers must fire in deadline order, got {:?}", r0[0].1.stamps));
    }
    Ok(format!("{} execs, all timed waits >= timeout, clock monotone", s.execs))
}

fn t_mpsc() -> Result<String, String> {
    let body = |o: Obs<Vec<String>>| {
        let (tx, rx) = mpsc::channel::<u32>();
        let tx2 = tx.clone();
        let o2 = o.clone();
        let h = thread::spawn(move || {
            let mut got = Vec::new();
            while let Ok(v) = rx.recv() {
                got.push(v);
            }
            o2.lock().unwrap().push(format!("{:?}", got));
        });
        let h2 = thread::spawn(move || {
            tx2.send(1).unwrap();
            tx2.send(2).unwrap();
        });
        tx.send(10).unwrap();
        drop(tx);
        h2.join().unwrap();
        h.join().unwrap();
        // sending to a dropped receiver fails
        let (tx, rx) = mpsc::channel::<u32>();
        drop(rx);
        assert!(tx.send(1).is_err());
    };
    let (s, r) = explore_all::<Vec<String>, _>(Mode::Chess, Some(2), body);
    let outs: std::collections::HashSet<String> =
        r.iter().map(|(_, o)| o.join(",")).collect();
    for (res, _) in &r {
        if res.end != End::Clean || !res.panics.is_empty() {
            return Err(format!("mpsc body failed: {:?} {:?} {:?}", res.end, res.panics, res.blocked));
        }
    }
    let want: std::collections::HashSet<String> = ["[10, 1, 2]", "[1, 10, 2]", "[1, 2, 10]"]
        .iter()
        .map(|s| s.to_string())
        .collect();
    if outs != want {
        return Err(format!("orders seen {:?}, expected {:?}", outs, want));
    }
    Ok(format!("{} execs, exactly the 3 FIFO-compatible orders", s.execs))
}

fn t_notify_choice() -> Result<String, String> {
    let body = |o: Obs<Vec<u8>>| {
        let m = Arc::new(Mutex::new(0u32));
        let cv = Arc::new(Condvar::new());
        let mut hs = Vec::new();
        for t in 0..2u8 {
            let (m, cv, o) = (m.clone(), cv.clone(), o.clone());
            hs.push(thread::spawn(move || {
                let mut g = m.lock().unwrap();
                while *g == 0 {
                    g = cv.wait(g).unwrap();
                }
                *g -= 1;
                o.lock().unwrap().push(t);
            }));
        }
        ctl::settle();
        *m.lock().unwrap() += 1;
        cv.notify_one();
        ctl::settle();
        *m.lock().unwrap() += 1;
        cv.notify_one();
        for h in hs {
            h.join().unwrap();
        }
    };
    let (_, r0) = explore_all::<Vec<u8>, _>(Mode::Strict, Some(0), body);
    if r0.len() != 1 || r0[0].1 != vec![0, 1] {
        return Err(format!("default must wake the longest waiter: {:?}", r0[0].1));
    }
    let (s, r1) = explore_all::<Vec<u8>, _>(Mode::Chess, Some(1), body);
    if !r1.iter().any(|(_, o)| *o == vec![1, 0]) {
        return Err("waking the other waiter not explored".into());
    }
    Ok(format!("{} execs, both wake-up orders seen", s.execs))
}

fn t_net() -> Result<String, String> {
    use std::io::{Read, Write};
    let body = |o: Obs<Vec<String>>| {
        let l = net::MemListener::bind();
        let addr = l.local_addr().unwrap();
        let o2 = o.clone();
        let srv = thread::spawn(move || {
            let mut s = l.accept().unwrap();
            let mut buf = [0u8; 4];
            loop {
                match s.read(&mut buf) {
                    Ok(0) => {
                        o2.lock().unwrap().push("eof".into());
                        break;
                    }
                    Ok(n) => {
                        o2.lock().unwrap().push(format!("r{}", n));
                        s.write_all(&buf[..n]).unwrap();
                    }
                    Err(e) => {
                        o2.lock().unwrap().push(format!("err {:?}", e.kind()));
                        break;
                    }
                }
            }
            drop(s);
            drop(l);
        });
        let c = net::ClientEnd::connect(&addr, net::ConnectOpts::default()).unwrap();
        c.send(b"abcdef").unwrap();
        c.send(b"g").unwrap();
        ctl::settle();
        let d = c.drain();
        let all: Vec<u8> = d.segments.concat();
        o.lock().unwrap().push(format!("c:{}", String::from_utf8_lossy(&all)));
        assert!(!d.eof);
        c.close_write();
        srv.join().unwrap();
        let d = c.drain();
        assert!(d.eof);
        assert!(net::ClientEnd::connect(&addr, net::ConnectOpts::default()).is_err());
    };
    let (s, r) = explore_all::<Vec<String>, _>(Mode::Chess, Some(0), body);
    let got = r[0].1.join(" ");
    if r[0].0.end != End::Clean || got != "r4 r2 r1 c:abcdefg eof" {
        return Err(format!("net echo: {:?} {:?} {}", r[0].0.end, r[0].0.panics, got));
    }
    // reset, cut and capacity
    let body2 = |o: Obs<Vec<String>>| {
        let l = net::MemListener::bind();
        let addr = l.local_addr().unwrap();
        let mut c = net::ClientEnd::connect(
            &addr,
            net::ConnectOpts {
                s2c_cut: Some((5, net::CutKind::Close)),
                ..Default::default()
            },
        )
        .unwrap();
        let mut s = l.accept().unwrap();
        let r1 = s.write(b"abc");
        let r2 = s.write(b"defgh");
        let r3 = s.write(b"x");
        o.lock()
            .unwrap()
            .push(format!("{:?} {:?} {:?}", r1.ok(), r2.ok(), r3.map_err(|e| e.kind())));
        c.close();
        let mut c2 = net::ClientEnd::connect(&addr, Default::default()).unwrap();
        let mut s2 = l.accept().unwrap();
        c2.send(b"hello").unwrap();
        c2.reset();
        let mut buf = [0u8; 16];
        let a = s2.read(&mut buf).ok();
        let b = s2.read(&mut buf).map_err(|e| e.kind());
        let pa = s2.peer_addr().map_err(|e| e.kind());
        o.lock().unwrap().push(format!("{:?} {:?} {:?}", a, b, pa));
        // capacity: the writer blocks until the client drains
        let c3 = net::ClientEnd::connect(
            &addr,
            net::ConnectOpts {
                s2c_capacity: Some(4),
                ..Default::default()
            },
        )
        .unwrap();
        let mut s3 = l.accept().unwrap();
        let o3 = o.clone();
        let h = thread::spawn(move || {
            s3.write_all(b"0123456789").unwrap();
            o3.lock().unwrap().push("written".into());
        });
        ctl::settle();
        o.lock().unwrap().push("settled".into());
        let mut total = 0;
        while total < 10 {
            total += c3.read().unwrap().len();
        }
        h.join().unwrap();
    };
    let (_, r) = explore_all::<Vec<String>, _>(Mode::Chess, Some(0), body2);
    let got = r[0].1.join(" | ");
    let want = "Some(3) Some(2) Err(BrokenPipe) | Some(5) Err(ConnectionReset) Err(NotConnected) | settled | written";
    if r[0].0.end != End::Clean || got != want {
        return Err(format!("net faults: {:?} {:?}\n got  {}\n want {}", r[0].0.end, r[0].0.panics, got, want));
    }
    Ok(format!("{} execs; segmentation, EOF, refused connect, cut, reset, capacity ok", s.execs))
}

fn t_panic_recorded() -> Result<String, String> {
    let body = |_o: Obs<()>| {
        let h = thread::spawn(|| {
            panic!("boom");
        });
        assert!(h.join().is_err());
    };
    let (_, r) = explore_all::<(), _>(Mode::Chess, Some(0), body);
    let res = &r[0].0;
    if res.end != End::Clean || res.panics.len() != 1 || res.panics[0].message != "boom" {
        return Err(format!("{:?} {:?}", res.end, res.panics));
    }
    Ok("panic recorded with message and location, join() sees Err".into())
}

fn t_window() -> Result<String, String> {
    // decisions outside the window are not branched on
    let body = |o: Obs<usize>| {
        ctl::window(false);
        lost_update_body(o.clone());
        ctl::window(true);
    };
    let (s, _) = explore_all::<usize, _>(Mode::Chess, Some(2), body);
    if s.execs != 1 {
        return Err(format!("closed window still branched: {} execs", s.execs));
    }
    Ok("closed window = 1 execution".into())
}

fn spurious_body(o: Obs<(bool, bool)>, spurious: bool, use_while: bool) {
    // consumer waits ONCE (`if` instead of `while`): right without spurious wake-ups,
    // wrong with them
    ctl::spurious(spurious);
    let st = Arc::new(Mutex::new(false));
    let cv = Arc::new(Condvar::new());
    let (st2, cv2, o2) = (st.clone(), cv.clone(), o.clone());
    let h = thread::spawn(move || {
        let mut g = st2.lock().unwrap();
        if use_while {
            while !*g {
                g = cv2.wait(g).unwrap();
            }
        } else if !*g {
            g = cv2.wait(g).unwrap();
        }
        o2.lock().unwrap().0 = *g;
    });
    ctl::settle(); // the consumer is parked in its wait
    {
        let mut g = st.lock().unwrap();
        *g = true;
    }
    cv.notify_one();
    h.join().unwrap();
    o.lock().unwrap().1 = true;
}

fn t_spurious() -> Result<String, String> {
    let mut msg = String::new();
    for (spurious, use_while, want_bad) in [(false, false, false), (true, false, true), (true, true, false)] {
        for bound in [0u32, 1] {
            let (s, r) = explore_all::<(bool, bool), _>(Mode::Chess, Some(bound), move |o| spurious_body(o, spurious, use_while));
            let bad = r.iter().filter(|(res, ob)| res.end != End::Clean || !ob.0 || !ob.1).count();
            let woke: u64 = r.iter().map(|(res, _)| res.spurious_wakes).sum();
            let expect_bad = want_bad && bound >= 1;
            if (bad > 0) != expect_bad {
                return Err(format!("spurious={} while={} bound={}: {} bad executions of {}", spurious, use_while, bound, bad, s.execs));
            }
            if spurious && bound >= 1 && woke == 0 {
                return Err("no spurious wake-up was ever taken".into());
            }
            if (!spurious || bound == 0) && woke != 0 {
                return Err("spurious wake-up taken although not allowed / not affordable".into());
            }
            msg += &format!("sp={} while={} b={}: {}/{} bad; ", spurious, use_while, bound, bad, s.execs);
        }
    }
    Ok(msg)
}

fn late_body(o: Obs<(Option<bool>, u64)>, on: bool) {
    // a timed waiter is notified before its deadline; with late wake-ups it may observe
    // "not timed out" together with more elapsed time than it asked for
    ctl::spurious(on);
    let st = Arc::new(Mutex::new(false));
    let cv = Arc::new(Condvar::new());
    let (st2, cv2, o2) = (st.clone(), cv.clone(), o.clone());
    let h = thread::spawn(move || {
        let g = st2.lock().unwrap();
        let t0 = ctl::clock_ns();
        let (_g, r) = cv2.wait_timeout(g, Duration::from_millis(10)).unwrap();
        *o2.lock().unwrap() = (Some(r.timed_out()), ctl::clock_ns() - t0);
    });
    ctl::settle();
    ctl::sleep(Duration::from_millis(4));
    {
        let mut g = st.lock().unwrap();
        *g = true;
    }
    cv.notify_one();
    h.join().unwrap();
}

fn t_late() -> Result<String, String> {
    let mut msg = String::new();
    for on in [false, true] {
        for bound in [0u32, 1] {
            let (s, r) = explore_all::<(Option<bool>, u64), _>(Mode::Chess, Some(bound), move |o| late_body(o, on));
            let late = r.iter().filter(|(_, ob)| ob.0 == Some(false) && ob.1 > 10_000_000).count();
            let want = on && bound >= 1;
            if (late > 0) != want {
                return Err(format!("late wake-ups on={} bound={}: {} executions report 'notified' after more than the timeout, of {}", on, bound, late, s.execs));
            }
            if r.iter().any(|(res, _)| res.end != End::Clean) {
                return Err("an execution did not end cleanly".into());
            }
            msg += &format!("on={} b={}: {}/{} late; ", on, bound, late, s.execs);
        }
    }
    Ok(msg)
}

fn main() {
    let tests: Vec<(&str, fn() -> Result<String, String>)> = vec![
        ("lost-update@bound", t_lost_update),
        ("count-interleavings", t_count_interleavings),
        ("lost-wakeup", t_lost_wakeup),
        ("abba-deadlock", t_abba),
        ("timeout-vs-notify", t_timeout_race),
        ("replay-determinism", t_replay_determinism),
        ("virtual-clock", t_clock),
        ("mpsc", t_mpsc),
        ("notify-one-choice", t_notify_choice),
        ("mem-network", t_net),
        ("panic-recording", t_panic_recorded),
        ("window", t_window),
        ("spurious-wakeup", t_spurious),
        ("late-wakeup", t_late),
    ];
    let mut failed = 0;
    for (name, f) in tests {
        match f() {
            Ok(m) => println!("selftest {:<22} ok    {}", name, m),
            Err(m) => {
                failed += 1;
                println!("selftest {:<22} FAIL  {}", name, m)
            }
        }
    }
    if failed > 0 {
        println!("vrt selftest: {} FAILED", failed);
        std::process::exit(2);
    }
    println!("vrt selftest: all passed");
}
