// Virtual clock.  Time only passes when a timed wait or sleep expires (see core.rs).

use super::core::with_state;
use std::ops::{Add, Sub};
use std::time::Duration;

#[derive(Clone, Copy, Debug, PartialEq, Eq, PartialOrd, Ord, Hash)]
pub struct Instant(u64);

impl Instant {
    pub fn now() -> Instant {
        Instant(with_state(|st, _| st.clock))
    }
    pub fn elapsed(&self) -> Duration {
        Instant::now().duration_since(*self)
    }
    pub fn duration_since(&self, earlier: Instant) -> Duration {
        Duration::from_nanos(self.0.saturating_sub(earlier.0))
    }
    pub fn as_nanos(&self) -> u64 {
        self.0
    }
}

impl Sub<Instant> for Instant {
    type Output = Duration;
    fn sub(self, rhs: Instant) -> Duration {
        self.duration_since(rhs)
    }
}

impl Add<Duration> for Instant {
    type Output = Instant;
    fn add(self, rhs: Duration) -> Instant {
        Instant(self.0.saturating_add(rhs.as_nanos() as u64))
    }
}
