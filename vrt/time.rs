// Virtual clock.  Time only passes when a timed wait or sleep expires (see core.rs).

use super::core::with_state;
use std::ops::{Add, Sub};
use std::time::Duration;

#[derive(Clone, Copy, Debug, PartialEq, Eq, PartialOrd, Ord, Hash)]
pub struct Instant(u64);

impl Instant {
    pub fn now() -> Instant {
        Instant(with_state(|st, _| st.clock))
    }
    pub fn elapsed(&self) -> Duration {
        Instant::now().duration_since(*self)
    }
    pub fn duration_since(&self, earlier: Instant) -> Duration {
        Duration::from_nanos(self.0.saturating_sub(earlier.0))
    }
    pub fn as_nanos(&self) -> u64 {
        self.0
    }
}

impl Sub<Instant> for Instant {
    type Output = Duration;
    fn sub(self, rhs: Instant) -> Duration {
        self.duration_since(rhs)
    }
}

impl Add<Duration> for Instant {
    type Output = Instant;
    fn add(self, rhs: Duration) -> Instant {
        // std panics when the sum does not fit its representation (seconds in an i64)
        if rhs.as_secs() > (i64::MAX as u64).saturating_sub(self.0 / 1_000_000_000) {
            panic!("overflow when adding duration to instant");
        }
        Instant(self.0.saturating_add(ns_saturating(rhs)))
    }
}

/// nanoseconds of `d`, `u64::MAX` when they do not fit (a wait that long never ends: the
/// virtual clock saturates there as well)
pub fn ns_saturating(d: Duration) -> u64 {
    let n = d.as_nanos();
    if n > u64::MAX as u128 {
        u64::MAX
    } else {
        n as u64
    }
}

// ------------------------------------------------------------------------- wall clock
//
// `SystemTime::now()` for code that stamps things with the date (the Date header): the real
// wall clock, shifted by an offset the harness controls.  It returns a std SystemTime, so that conversions written
// for std (`HttpDate::from(SystemTime::now())`) compile unchanged.

use std::sync::atomic::{AtomicI64, Ordering};

static WALL_OFFSET_SECS: AtomicI64 = AtomicI64::new(0);

/// Shifts the wall clock seen by the code under test by `secs` (absolute, not cumulative).
pub fn set_wall_offset_secs(secs: i64) {
    WALL_OFFSET_SECS.store(secs, Ordering::SeqCst);
}

pub fn wall_offset_secs() -> i64 {
    WALL_OFFSET_SECS.load(Ordering::SeqCst)
}

/// Drop-in for `std::time::SystemTime` in type and value positions.
#[derive(Clone, Copy, Debug, PartialEq, Eq, PartialOrd, Ord, Hash)]
pub struct SystemTime(pub std::time::SystemTime);

impl SystemTime {
    pub const UNIX_EPOCH: SystemTime = SystemTime(std::time::SystemTime::UNIX_EPOCH);

    pub fn now() -> SystemTime {
        let t = std::time::SystemTime::now();
        let off = WALL_OFFSET_SECS.load(Ordering::SeqCst);
        SystemTime(if off >= 0 {
            t + Duration::from_secs(off as u64)
        } else {
            t - Duration::from_secs((-off) as u64)
        })
    }
    /// accepts this type and std's (e.g. `std::time::UNIX_EPOCH`)
    pub fn duration_since<T: Into<std::time::SystemTime>>(&self, earlier: T) -> Result<Duration, std::time::SystemTimeError> {
        self.0.duration_since(earlier.into())
    }
    pub fn elapsed(&self) -> Result<Duration, std::time::SystemTimeError> {
        SystemTime::now().0.duration_since(self.0)
    }
    pub fn checked_add(&self, d: Duration) -> Option<SystemTime> {
        self.0.checked_add(d).map(SystemTime)
    }
    pub fn checked_sub(&self, d: Duration) -> Option<SystemTime> {
        self.0.checked_sub(d).map(SystemTime)
    }
}

impl From<SystemTime> for std::time::SystemTime {
    fn from(t: SystemTime) -> std::time::SystemTime {
        t.0
    }
}

impl Add<Duration> for SystemTime {
    type Output = SystemTime;
    fn add(self, d: Duration) -> SystemTime {
        SystemTime(self.0 + d)
    }
}

impl Sub<Duration> for SystemTime {
    type Output = SystemTime;
    fn sub(self, d: Duration) -> SystemTime {
        SystemTime(self.0 - d)
    }
}

impl std::ops::AddAssign<Duration> for SystemTime {
    fn add_assign(&mut self, d: Duration) {
        self.0 += d;
    }
}

impl std::ops::SubAssign<Duration> for SystemTime {
    fn sub_assign(&mut self, d: Duration) {
        self.0 -= d;
    }
}
