// Drop-in replacements for the std::sync items tiny-http uses.

use super::core::{sched, try_with_state, with_state, AltKind, Obj, Op};
use std::collections::VecDeque;
use std::ops::{Deref, DerefMut};
use std::sync::{LockResult, Mutex as StdMutex, MutexGuard as StdGuard, PoisonError};
use std::time::Duration;

pub use std::sync::Arc;

// ------------------------------------------------------------------------- Mutex

pub struct Mutex<T> {
    id: Obj,
    inner: StdMutex<T>,
}

pub struct MutexGuard<'a, T> {
    m: &'a Mutex<T>,
    g: Option<StdGuard<'a, T>>,
}

impl<T> Mutex<T> {
    pub fn new(t: T) -> Mutex<T> {
        let id = with_state(|st, _| st.new_mutex());
        Mutex {
            id,
            inner: StdMutex::new(t),
        }
    }

    pub fn lock(&self) -> LockResult<MutexGuard<'_, T>> {
        let id = self.id;
        sched(Op::Lock(id), |st, me| {
            st.mutexes[id] = Some(me);
        });
        self.relock()
    }

    fn relock(&self) -> LockResult<MutexGuard<'_, T>> {
        // the runtime has granted ownership, so the inner lock is free
        match self.inner.try_lock() {
            Ok(g) => Ok(MutexGuard {
                m: self,
                g: Some(g),
            }),
            Err(std::sync::TryLockError::Poisoned(p)) => Err(PoisonError::new(MutexGuard {
                m: self,
                g: Some(p.into_inner()),
            })),
            Err(std::sync::TryLockError::WouldBlock) => {
                panic!("vrt: inner mutex held although the runtime granted ownership")
            }
        }
    }
}

impl<T> Deref for MutexGuard<'_, T> {
    type Target = T;
    fn deref(&self) -> &T {
        self.g.as_ref().unwrap()
    }
}

impl<T> DerefMut for MutexGuard<'_, T> {
    fn deref_mut(&mut self) -> &mut T {
        self.g.as_mut().unwrap()
    }
}

impl<T> Drop for MutexGuard<'_, T> {
    fn drop(&mut self) {
        if let Some(g) = self.g.take() {
            drop(g);
            let id = self.m.id;
            // release is not a scheduling point (it never blocks; the next acquire is one)
            let _ = try_with_state(|st, _| {
                st.mutexes[id] = None;
            });
        }
    }
}

// ------------------------------------------------------------------------- Condvar

pub struct Condvar {
    id: Obj,
}

#[derive(Clone, Copy, Debug, PartialEq, Eq)]
pub struct WaitTimeoutResult(bool);

impl WaitTimeoutResult {
    pub fn timed_out(&self) -> bool {
        self.0
    }
}

impl Condvar {
    pub fn new() -> Condvar {
        Condvar {
            id: with_state(|st, _| st.new_condvar()),
        }
    }

    fn wait_impl<'a, T>(
        &self,
        mut guard: MutexGuard<'a, T>,
        dur: Option<Duration>,
    ) -> (LockResult<MutexGuard<'a, T>>, bool) {
        let m = guard.m;
        let cv = self.id;
        let mid = m.id;
        // phase 1: atomically release the mutex and join the waiters
        let deadline = sched(Op::CvEnter(cv, mid), |st, me| {
            st.mutexes[mid] = None;
            st.threads[me].blocking_ops += 1;
            st.condvars[cv].push_back(me);
            st.threads[me].notified = false;
            st.threads[me].timed_out = false;
            dur.map(|d| st.clock.saturating_add(super::time::ns_saturating(d)))
        });
        let g = guard.g.take();
        drop(g);
        drop(guard);
        // phase 2: blocked until notified (or timed out) and the mutex is free again
        let timed_out = sched(
            Op::CvWait {
                cv,
                mutex: mid,
                deadline,
            },
            |st, me| {
                st.mutexes[mid] = Some(me);
                let to = st.threads[me].timed_out && !st.threads[me].notified;
                st.threads[me].notified = false;
                st.threads[me].timed_out = false;
                st.condvars[cv].retain(|&w| w != me);
                to
            },
        );
        (m.relock(), timed_out)
    }

    pub fn wait<'a, T>(&self, guard: MutexGuard<'a, T>) -> LockResult<MutexGuard<'a, T>> {
        self.wait_impl(guard, None).0
    }

    pub fn wait_timeout<'a, T>(
        &self,
        guard: MutexGuard<'a, T>,
        dur: Duration,
    ) -> LockResult<(MutexGuard<'a, T>, WaitTimeoutResult)> {
        let (r, to) = self.wait_impl(guard, Some(dur));
        match r {
            Ok(g) => Ok((g, WaitTimeoutResult(to))),
            Err(p) => Err(PoisonError::new((p.into_inner(), WaitTimeoutResult(to)))),
        }
    }

    pub fn notify_one(&self) {
        let cv = self.id;
        sched(Op::Notify(cv), |st, _| {
            let n = st.condvars[cv].len();
            if n == 0 {
                return;
            }
            let k = if n == 1 {
                0
            } else {
                // any waiter may be woken; default: the longest-waiting one
                let mut kinds = vec![AltKind::Waiter; n];
                kinds[0] = AltKind::Default;
                st.decide(kinds)
            };
            if let Some(w) = st.condvars[cv].remove(k) {
                st.threads[w].notified = true;
            }
        });
    }

    pub fn notify_all(&self) {
        let cv = self.id;
        sched(Op::Notify(cv), |st, _| {
            while let Some(w) = st.condvars[cv].pop_front() {
                st.threads[w].notified = true;
            }
        });
    }
}

impl Default for Condvar {
    fn default() -> Condvar {
        Condvar::new()
    }
}

// ------------------------------------------------------------------------- mpsc

pub mod mpsc {
    use super::*;
    pub use std::sync::mpsc::{RecvError, SendError, TryRecvError};

    struct Shared<T> {
        id: Obj,
        q: StdMutex<VecDeque<T>>,
    }

    pub struct Sender<T> {
        sh: Arc<Shared<T>>,
    }

    pub struct Receiver<T> {
        sh: Arc<Shared<T>>,
    }

    pub fn channel<T>() -> (Sender<T>, Receiver<T>) {
        let id = with_state(|st, _| st.new_chan());
        let sh = Arc::new(Shared {
            id,
            q: StdMutex::new(VecDeque::new()),
        });
        (Sender { sh: sh.clone() }, Receiver { sh })
    }

    impl<T> Sender<T> {
        pub fn send(&self, t: T) -> Result<(), SendError<T>> {
            let id = self.sh.id;
            let sh = &self.sh;
            let mut slot = Some(t);
            let ok = sched(Op::Send(id), |st, _| {
                if !st.chans[id].rx_alive {
                    return false;
                }
                st.chans[id].len += 1;
                sh.q.lock()
                    .unwrap_or_else(|e| e.into_inner())
                    .push_back(slot.take().unwrap());
                true
            });
            if ok {
                Ok(())
            } else {
                Err(SendError(slot.take().unwrap()))
            }
        }
    }

    impl<T> Clone for Sender<T> {
        fn clone(&self) -> Sender<T> {
            let id = self.sh.id;
            let _ = try_with_state(|st, _| st.chans[id].senders += 1);
            Sender {
                sh: self.sh.clone(),
            }
        }
    }

    impl<T> Drop for Sender<T> {
        fn drop(&mut self) {
            let id = self.sh.id;
            if super::super::core::try_ctx().is_none() {
                return;
            }
            if try_with_state(|_, _| ()).is_none() {
                return;
            }
            sched(Op::ChanDrop(id), |st, _| {
                st.chans[id].senders -= 1;
            });
        }
    }

    impl<T> Receiver<T> {
        pub fn recv(&self) -> Result<T, RecvError> {
            let id = self.sh.id;
            let sh = &self.sh;
            let v = sched(Op::Recv(id), |st, _| {
                if st.chans[id].len > 0 {
                    st.chans[id].len -= 1;
                    sh.q.lock().unwrap_or_else(|e| e.into_inner()).pop_front()
                } else {
                    None
                }
            });
            v.ok_or(RecvError)
        }

        pub fn try_recv(&self) -> Result<T, TryRecvError> {
            let id = self.sh.id;
            let sh = &self.sh;
            sched(Op::Send(id), |st, _| {
                if st.chans[id].len > 0 {
                    st.chans[id].len -= 1;
                    Ok(sh
                        .q
                        .lock()
                        .unwrap_or_else(|e| e.into_inner())
                        .pop_front()
                        .unwrap())
                } else if st.chans[id].senders == 0 {
                    Err(TryRecvError::Disconnected)
                } else {
                    Err(TryRecvError::Empty)
                }
            })
        }
    }

    impl<T> Drop for Receiver<T> {
        fn drop(&mut self) {
            let id = self.sh.id;
            if super::super::core::try_ctx().is_none() {
                return;
            }
            if try_with_state(|_, _| ()).is_none() {
                return;
            }
            let sh = &self.sh;
            // queued messages are destroyed with the receiver (as in std); their
            // destructors may contain visible operations, so run them outside the lock
            let pending: Vec<T> = sched(Op::ChanDrop(id), |st, _| {
                st.chans[id].rx_alive = false;
                st.chans[id].len = 0;
                sh.q.lock()
                    .unwrap_or_else(|e| e.into_inner())
                    .drain(..)
                    .collect()
            });
            drop(pending);
        }
    }
}

// ------------------------------------------------------------------------- atomics

pub mod atomic {
    use super::*;
    pub use std::sync::atomic::Ordering;

    pub struct AtomicBool {
        id: Obj,
        v: std::sync::atomic::AtomicBool,
    }

    impl AtomicBool {
        pub fn new(v: bool) -> AtomicBool {
            AtomicBool {
                id: with_state(|st, _| st.new_atomic()),
                v: std::sync::atomic::AtomicBool::new(v),
            }
        }
        pub fn load(&self, _o: Ordering) -> bool {
            sched(Op::Atomic(self.id), |_, _| self.v.load(Ordering::SeqCst))
        }
        pub fn store(&self, val: bool, _o: Ordering) {
            sched(Op::Atomic(self.id), |_, _| self.v.store(val, Ordering::SeqCst))
        }
        pub fn swap(&self, val: bool, _o: Ordering) -> bool {
            sched(Op::Atomic(self.id), |_, _| self.v.swap(val, Ordering::SeqCst))
        }
    }

    pub struct AtomicUsize {
        id: Obj,
        v: std::sync::atomic::AtomicUsize,
    }

    impl AtomicUsize {
        pub fn new(v: usize) -> AtomicUsize {
            AtomicUsize {
                id: with_state(|st, _| st.new_atomic()),
                v: std::sync::atomic::AtomicUsize::new(v),
            }
        }
        pub fn load(&self, _o: Ordering) -> usize {
            sched(Op::Atomic(self.id), |_, _| self.v.load(Ordering::SeqCst))
        }
        pub fn store(&self, val: usize, _o: Ordering) {
            sched(Op::Atomic(self.id), |_, _| self.v.store(val, Ordering::SeqCst))
        }
        pub fn fetch_add(&self, val: usize, _o: Ordering) -> usize {
            sched(Op::Atomic(self.id), |_, _| {
                self.v.fetch_add(val, Ordering::SeqCst)
            })
        }
        pub fn fetch_sub(&self, val: usize, _o: Ordering) -> usize {
            sched(Op::Atomic(self.id), |_, _| {
                self.v.fetch_sub(val, Ordering::SeqCst)
            })
        }
    }
}
